"""Recording application code for both endpoints: handler, subscriber, publisher. Everything observable goes to
world.log as ('api', endpoint, object, signal, detail)."""
from typing import Optional

from reactivestreams.publisher import Publisher
from reactivestreams.subscriber import Subscriber
from reactivestreams.subscription import Subscription
from rsocket.payload import Payload
from rsocket.request_handler import BaseRequestHandler


def b(x):
    return bytes(x) if x is not None else b''


def pl(payload):
    if payload is None:
        return None
    return (b(payload.data), b(payload.metadata))


def P(data=None, metadata=None):
    return Payload(data, metadata)


class AppRaise(Exception):
    """Deliberate failure of application code."""


class RecSubscriber(Subscriber):
    def __init__(self, w, ep, name, raise_in=None, request_on_subscribe=None, cancel_on_subscribe=False, cancel_in_on_next=None,
                 before_cancel=None):
        self.w = w
        self.ep = ep
        self.name = name
        self.signals = []  # ('S',) ('N', payload, complete) ('C',) ('E', repr)
        self.subscription: Optional[Subscription] = None
        self.raise_in = raise_in or ()
        self.request_on_subscribe = request_on_subscribe
        self.after_cancel = None  # index into signals when the app cancelled
        self.cancel_on_subscribe = cancel_on_subscribe
        self.cancel_in_on_next = cancel_in_on_next  # cancel from inside on_next of the k-th element ("take(k)")
        self.before_cancel = before_cancel

    def _rec(self, sig):
        self.signals.append(sig)
        self.w.api(self.ep, self.name, sig[0], sig[1:])
        if sig[0] in self.raise_in:
            raise AppRaise('subscriber %s raises in %s' % (self.name, sig[0]))

    def on_subscribe(self, subscription):
        self.subscription = subscription
        self._rec(('S',))
        if self.cancel_on_subscribe:
            # Reactive Streams allows cancelling from inside onSubscribe
            self.w.api(self.ep, self.name, 'cancel-in-on_subscribe', ())
            subscription.cancel()
            self.mark_cancel()
            return
        if self.request_on_subscribe:
            for n in (self.request_on_subscribe if isinstance(self.request_on_subscribe, (tuple, list)) else (self.request_on_subscribe,)):
                subscription.request(n)

    def on_next(self, value, is_complete=False):
        self._rec(('N', pl(value), bool(is_complete)))
        if self.cancel_in_on_next is not None and len(self.elements()) == self.cancel_in_on_next and self.after_cancel is None:
            self.w.api(self.ep, self.name, 'cancel-in-on_next', ())
            if self.before_cancel is not None:
                self.before_cancel(self, bool(is_complete))
            self.subscription.cancel()
            self.mark_cancel()

    def on_complete(self):
        self._rec(('C',))

    def on_error(self, exception):
        self._rec(('E', type(exception).__name__))

    def elements(self):
        return [s[1] for s in self.signals if s[0] == 'N']

    def terminal(self):
        for s in self.signals:
            if s[0] in ('C', 'E') or (s[0] == 'N' and s[2]):
                return s
        return None

    def mark_cancel(self):
        self.after_cancel = len(self.signals)


class RecPublisher(Publisher, Subscription):
    """Publisher whose every emission is an explicit application action."""

    def __init__(self, w, ep, name, raise_in=None):
        self.w = w
        self.ep = ep
        self.name = name
        self.subscriber = None
        self.requested = 0
        self.requests = []
        self.cancelled = 0
        self.emitted = 0
        self.raise_in = raise_in or ()

    def subscribe(self, subscriber):
        self.subscriber = subscriber
        self.w.api(self.ep, self.name, 'subscribe', ())
        if 'subscribe' in self.raise_in:
            raise AppRaise('publisher %s raises in subscribe' % self.name)
        subscriber.on_subscribe(self)

    def request(self, n):
        self.requested += n
        self.requests.append(n)
        self.w.api(self.ep, self.name, 'request', (n,))
        if 'request' in self.raise_in:
            raise AppRaise('publisher %s raises in request' % self.name)

    def cancel(self):
        self.cancelled += 1
        self.w.api(self.ep, self.name, 'cancel', ())
        if 'cancel' in self.raise_in:
            raise AppRaise('publisher %s raises in cancel' % self.name)

    # driven by app steps
    def emit(self, payload, complete=False):
        self.emitted += 1
        self.w.api(self.ep, self.name, 'emit', (pl(payload), complete))
        self.subscriber.on_next(payload, complete)

    def complete(self):
        self.w.api(self.ep, self.name, 'emit-complete', ())
        self.subscriber.on_complete()

    def error(self, exc):
        self.w.api(self.ep, self.name, 'emit-error', ())
        self.subscriber.on_error(exc)


class SyncPublisher(Publisher, Subscription):
    """Application publisher that emits synchronously from inside request(n) (a burst per credit), completing with the flag on
    its last element, or with a separate on_complete when `flag` is False; an empty source completes inside the first request."""

    def __init__(self, w, ep, name, items, flag=True):
        self.w, self.ep, self.name = w, ep, name
        self.items = list(items)
        self.flag = flag
        self.pos = 0
        self.subscriber = None
        self.cancelled = 0
        self.done = False
        self.requests = []
        self._emitting = False
        self._pending = 0

    def subscribe(self, subscriber):
        self.subscriber = subscriber
        self.w.api(self.ep, self.name, 'subscribe', ())
        subscriber.on_subscribe(self)

    def request(self, n):
        self.requests.append(n)
        self.w.api(self.ep, self.name, 'request', (n,))
        self._pending += n
        if self._emitting:
            return  # re-entrant request from inside on_next: served by the running loop
        self._emitting = True
        try:
            while self._pending > 0 and not self.cancelled and not self.done:
                if self.pos >= len(self.items):
                    self.done = True
                    self.w.api(self.ep, self.name, 'emit-complete', ())
                    self.subscriber.on_complete()
                    break
                self._pending -= 1
                item = self.items[self.pos]
                self.pos += 1
                last = self.flag and self.pos == len(self.items)
                if last:
                    self.done = True
                self.w.api(self.ep, self.name, 'emit', (pl(item), last))
                self.subscriber.on_next(item, last)
        finally:
            self._emitting = False

    def cancel(self):
        self.cancelled += 1
        self.w.api(self.ep, self.name, 'cancel', ())


class EagerTerminalPublisher(Publisher, Subscription):
    """Application publisher that signals its terminal event from inside subscribe(), before any demand (empty completion or
    error at once) - allowed by Reactive Streams."""

    def __init__(self, w, ep, name, error=False):
        self.w, self.ep, self.name, self.is_error = w, ep, name, error
        self.subscriber = None
        self.cancelled = 0
        self.requests = []

    def subscribe(self, subscriber):
        self.subscriber = subscriber
        self.w.api(self.ep, self.name, 'subscribe', ())
        subscriber.on_subscribe(self)
        if self.is_error:
            self.w.api(self.ep, self.name, 'emit-error', ())
            subscriber.on_error(RuntimeError('fails at once'))
        else:
            self.w.api(self.ep, self.name, 'emit-complete', ())
            subscriber.on_complete()

    def request(self, n):
        self.requests.append(n)
        self.w.api(self.ep, self.name, 'request', (n,))

    def cancel(self):
        self.cancelled += 1
        self.w.api(self.ep, self.name, 'cancel', ())


class RecHandler(BaseRequestHandler):
    """Recording RequestHandler. `beh` maps method name -> callable(handler, payload) implementing the application."""

    def __init__(self, w, ep, beh=None):
        self.w = w
        self.ep = ep
        self.beh = beh or {}
        self.calls = []

    def _log(self, what, detail=()):
        self.calls.append((what, detail))
        self.w.api(self.ep, 'handler', what, detail)

    async def on_setup(self, data_encoding, metadata_encoding, payload):
        self._log('on_setup', (b(data_encoding), b(metadata_encoding), pl(payload)))
        f = self.beh.get('on_setup')
        if f:
            r = f(self, payload)
            if hasattr(r, '__await__'):
                await r

    async def request_response(self, payload):
        self._log('request_response', pl(payload))
        f = self.beh.get('request_response')
        if f is None:
            raise RuntimeError('Not implemented')
        r = f(self, payload)
        if hasattr(r, '__await__') and not hasattr(r, 'add_done_callback'):
            r = await r
        return r

    async def request_stream(self, payload):
        self._log('request_stream', pl(payload))
        f = self.beh.get('request_stream')
        if f is None:
            raise RuntimeError('Not implemented')
        r = f(self, payload)
        if hasattr(r, '__await__'):
            r = await r
        return r

    async def request_channel(self, payload):
        self._log('request_channel', pl(payload))
        f = self.beh.get('request_channel')
        if f is None:
            raise RuntimeError('Not implemented')
        r = f(self, payload)
        if hasattr(r, '__await__'):
            r = await r
        return r

    async def request_fire_and_forget(self, payload):
        self._log('request_fire_and_forget', pl(payload))
        f = self.beh.get('request_fire_and_forget')
        if f:
            r = f(self, payload)
            if hasattr(r, '__await__'):
                await r

    async def on_metadata_push(self, payload):
        self._log('on_metadata_push', pl(payload))
        f = self.beh.get('on_metadata_push')
        if f:
            r = f(self, payload)
            if hasattr(r, '__await__'):
                await r

    async def on_error(self, error_code, payload):
        self._log('on_error', (int(error_code), pl(payload)))
        f = self.beh.get('on_error')
        if f:
            r = f(self, payload)
            if hasattr(r, '__await__'):
                await r

    async def on_close(self, rsocket, exception=None):
        self._log('on_close', ())
        f = self.beh.get('on_close')
        if f:
            r = f(self, rsocket)
            if hasattr(r, '__await__'):
                await r

    async def on_connection_error(self, rsocket, exception):
        self._log('on_connection_error', (type(exception).__name__,))

    async def on_keepalive_timeout(self, time_since_last_keepalive, rsocket):
        self._log('on_keepalive_timeout', (round(time_since_last_keepalive.total_seconds(), 6),))
        f = self.beh.get('on_keepalive_timeout')
        if f:
            r = f(self, rsocket)
            if hasattr(r, '__await__'):
                await r


def watch_future(w, ep, name, fut):
    """Record how an awaitable handed to the application completes."""
    rec = {'name': name, 'state': 'pending', 'value': None, 'n': 0}

    def done(f):
        rec['n'] += 1
        if f.cancelled():
            rec['state'] = 'cancelled'
        elif f.exception() is not None:
            rec['state'] = 'error'
            rec['value'] = type(f.exception()).__name__
        else:
            rec['state'] = 'result'
            r = f.result()
            rec['value'] = pl(r) if isinstance(r, Payload) else r
        w.api(ep, name, 'future-' + rec['state'], rec['value'])

    fut.add_done_callback(done)
    rec['future'] = fut
    return rec
