import os
import sys


def main(argv):
    if len(argv) < 2:
        print(__doc__ or 'usage: check <ID> quick|thorough | check replay <file>')
        return 2
    src = os.environ.get('RSOCKET_SRC')
    if src:
        sys.path.insert(0, src)
    from mc import runner
    if argv[0] == 'replay':
        return runner.replay(argv[1])
    prop = argv[0].upper()
    tier = argv[1]
    if tier not in ('quick', 'thorough'):
        print('tier must be quick or thorough')
        return 2
    seed = int(os.environ.get('VERIF_SEED', '0') or 0)
    modname = 'mc.props.%s' % prop.lower()
    return runner.run_property(prop, modname, tier, seed)


if __name__ == '__main__':
    sys.exit(main(sys.argv[1:]))
