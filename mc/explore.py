"""Exploration engines over the closed world: DEV (deviation-bounded schedule exploration, stateless) and helpers."""
import traceback

from mc.runner import arm_watchdog, disarm_watchdog, h64, Watchdog
from mc.vloop import Livelock
from mc.world import World, Chooser, ReplayDivergence, StepBudget


class HarnessError(Exception):
    pass


class Scenario:
    """name, params (json-able, enough to rebuild it), world_kw, setup(w), check(w) -> [(rule, signature, detail)]"""
    name = '?'
    params = None
    world_kw = None

    def setup(self, w):
        raise NotImplementedError

    def check(self, w):
        return []

    def nontrivial(self, w):
        return False

    def outcome(self, w):
        return None


class Exec:
    __slots__ = ('taken', 'points', 'violations', 'digest', 'outcome', 'nontrivial', 'log_tail', 'spelled', 'nlog')


def innermost_rsocket_frame(exc):
    tb = exc.__traceback__
    where = None
    while tb is not None:
        fn = tb.tb_frame.f_code.co_filename
        if '/rsocket/' in fn or '/reactivestreams/' in fn:
            where = '%s:%s' % (fn.split('/rsocket/')[-1] if '/rsocket/' in fn else fn.split('/')[-1],
                               tb.tb_frame.f_code.co_name)
        tb = tb.tb_next
    return where


def fmt_log(log, n=40):
    out = []
    for ev in log[-n:]:
        out.append(' '.join(str(x) for x in ev))
    return out


def execute(scn, prefix=(), part=None, keep_world=False, watchdog_s=20, digest=False):
    w = World(**(scn.world_kw or {}))
    ch = Chooser(prefix)
    x = Exec()
    viols = []
    try:
        arm_watchdog(watchdog_s)
        try:
            scn.setup(w)
            w.run(ch, part)
            viols = list(scn.check(w))
            x.nontrivial = scn.nontrivial(w)
            x.outcome = scn.outcome(w)
        except Livelock as e:
            viols = [('termination', 'termination | livelock | %s' % scn.name, str(e))]
            x.nontrivial, x.outcome = False, 'livelock'
        except StepBudget as e:
            viols = [('termination', 'termination | step-budget | %s' % scn.name, str(e))]
            x.nontrivial, x.outcome = False, 'step-budget'
        except Watchdog as e:
            viols = [('termination', 'termination | watchdog | %s' % scn.name, str(e))]
            x.nontrivial, x.outcome = False, 'watchdog'
        except ReplayDivergence:
            raise
        except Exception as e:
            where = innermost_rsocket_frame(e)
            if where is None:
                raise HarnessError('scenario %s %r prefix %r:\n%s' % (scn.name, scn.params, list(prefix),
                                                                      traceback.format_exc()))
            viols = [('api-exception', 'api-exception | exc=%s @ %s' % (type(e).__name__, where),
                      ''.join(traceback.format_exception_only(type(e), e)).strip())]
            x.nontrivial, x.outcome = False, 'api-exception'
    finally:
        disarm_watchdog()
        x.taken, x.points = ch.taken, ch.points
        x.spelled = ch.spelled()
        x.nlog = len(w.log)
        x.digest = h64(repr(w.log)) if digest else None
        x.log_tail = fmt_log(w.log, 60) if (viols or digest) else []
        if not keep_world:
            w.teardown()
    x.violations = viols
    if keep_world:
        return x, w
    return x


def record(scn, x, part, prop_prefix=''):
    part.evaluations += 1
    part.traces += 1
    if x.nontrivial:
        part.nontriv((scn.name, repr(scn.params), tuple(x.taken)))
    part.outcome(x.outcome if x.outcome is not None else x.digest)
    for rule, sig, detail in x.violations:
        part.violate(rule, sig, detail, {'scenario': scn.name, 'params': scn.params, 'choices': x.spelled,
                                         'log_tail': x.log_tail})


def check_determinism(scn, x):
    a = execute(scn, x.taken, digest=True)
    y = execute(scn, x.taken, digest=True)
    if y.digest != a.digest or y.taken != x.taken or a.taken != x.taken or repr(a.violations) != repr(x.violations):
        raise HarnessError('non-deterministic replay of %s %r choices %r' % (scn.name, scn.params, x.taken))


def dev_explore(scn, bound, part, shard=(0, 1), det_every=50, max_execs=None):
    """All executions with at most `bound` deviations from the default choice. Stateless; every execution runs to
    completion on a fresh world."""
    counter = [0]
    k, K = shard

    def rec(prefix, used, top):
        if max_execs is not None and counter[0] >= max_execs:
            if not part.caps or not part.caps[-1].startswith('max_execs'):
                part.caps.append('max_execs %d hit in %s' % (max_execs, scn.name))
            return
        x = execute(scn, prefix, part)
        counter[0] += 1
        if counter[0] % det_every == 1:
            check_determinism(scn, x)
            part.determinism_checks += 1
        if not top or k == 0:
            record(scn, x, part)
            if len(part.samples) < 2 and used == bound:
                part.sample({'scenario': scn.name, 'params': scn.params,
                             'schedule': [c[1] for c in x.spelled][:40], 'deviations': used})
        if used >= bound:
            return
        ordinal = 0
        for i in range(len(prefix), len(x.points)):
            for alt in range(1, len(x.points[i])):
                ordinal += 1
                if top and ordinal % K != k:
                    continue
                rec(list(x.taken[:i]) + [alt], used + 1, False)

    rec([], 0, True)
    return counter[0]


def replay_witness(scn, witness, verbose=True):
    """Re-execute a stored schedule step by step on a fresh world, without the explorer. Returns violations."""
    prefix = [tuple([c[0], tuple(c[1])]) for c in witness['choices']]
    prefix = [[c[0], list(c[1])] for c in witness['choices']]
    x1 = execute(scn, prefix, digest=True)
    x2 = execute(scn, prefix, digest=True)
    if x1.digest != x2.digest:
        raise HarnessError('replay is not deterministic')
    if verbose:
        print('schedule:')
        for c in x1.spelled:
            print('   ', c[1])
        print('trace tail:')
        for line in x1.log_tail:
            print('   ', line)
        for v in x1.violations:
            print('violation:', v)
    return x1.violations
