"""Further transport flavours of the simulated link: every transport class of the repository other than TransportTCP and
the aiohttp pair (which live in world.py) is run for real against a fake of the third-party object it wraps.

 flavour  client transport                       server transport                              framing
 'wsk'    WebsocketsTransport (+handler task)    WebsocketsTransport (+handler task)           message
 'quart'  TransportAioHttpClient                 TransportQuartWebsocket (module `websocket`)  message
 'chan'   TransportAsyncWebsocketsClient         AsyncRSocketConsumer + ChannelsTransport      message
 'h3'     Http3TransportWebsocket                Http3TransportWebsocket                       message
 'quic'   RSocketQuicProtocol+RSocketQuicTransport (both ends)                                 byte stream, 3-byte prefix

The fakes implement exactly the calls the transport classes make (documented per class) and route them to the Dir
objects of world.py, so delivery, chunking, blocking and loss stay explorer decisions."""
import asyncio
from collections import deque

STREAM_FLAVOURS = ('tcp', 'quic')
MSG_FLAVOURS = ('msg', 'wsk', 'quart', 'chan', 'h3')
ALL_FLAVOURS = STREAM_FLAVOURS + MSG_FLAVOURS


def is_stream(flavour):
    return flavour in STREAM_FLAVOURS


class _Inbox:
    """Receiving half shared by all message fakes: feed_message / feed_eof / feed_error from the link, `_next()` for the
    transport's pump."""

    def _init_inbox(self, world):
        self.world = world
        self.in_closed = False
        self._inq = deque()
        self._waiter = None
        self._eof = False
        self._err = None

    def feed_message(self, m):
        self._inq.append(bytes(m))
        self._wake()

    feed_data = feed_message

    def feed_eof(self):
        self._eof = True
        self.in_closed = True
        self._wake()

    def feed_error(self, e):
        self._err = e
        self.in_closed = True
        self._wake()

    def _wake(self):
        if self._waiter is not None and not self._waiter.done():
            self._waiter.set_result(None)

    async def _next(self):
        """-> bytes, or raises EOFError (orderly end) / the fed error."""
        while True:
            if self._inq:
                return self._inq.popleft()
            if self._err is not None:
                e, self._err = self._err, None
                self._eof = True
                raise e
            if self._eof:
                raise EOFError
            self._waiter = self.world.loop.create_future()
            try:
                await self._waiter
            finally:
                self._waiter = None


class _Outbox:
    def _init_outbox(self, ep, out_dir):
        self.ep = ep
        self.out = out_dir
        self.closed = False
        self.close_calls = 0

    async def _send(self, data, error=ConnectionResetError):
        if self.out.write_error:
            raise error('simulated write failure')
        self.out.message_written(bytes(data), after_close=self.closed)
        await self.out.wait_writable()
        if self.out.write_error:
            raise error('simulated write failure')

    def _mark_closed(self):
        self.close_calls += 1
        if self.closed:
            return
        self.closed = True
        self.world.logev(('close', self.ep))
        self.out.fin = True


# ---- websockets library: `async for message in ws`, `await ws.send(bytes)` --------------------------------------------
class WskWS(_Inbox, _Outbox):
    def __init__(self, world, ep, out_dir, in_dir):
        self._init_inbox(world)
        self._init_outbox(ep, out_dir)

    def __aiter__(self):
        return self

    async def __anext__(self):
        try:
            return await self._next()
        except EOFError:
            raise StopAsyncIteration  # websockets ends the iteration silently on a normal close
        except ConnectionResetError:
            from websockets.exceptions import ConnectionClosedError
            raise ConnectionClosedError(None, None)

    async def send(self, data):
        await self._send(data)

    async def close(self):
        self._mark_closed()


# ---- asyncwebsockets: `async for event in ws` (wsproto events), `await ws.send(bytes)` ---------------------------------
class AwsWS(_Inbox, _Outbox):
    def __init__(self, world, ep, out_dir, in_dir):
        self._init_inbox(world)
        self._init_outbox(ep, out_dir)

    def __aiter__(self):
        return self

    async def __anext__(self):
        from wsproto.events import BytesMessage
        try:
            return BytesMessage(data=await self._next())
        except EOFError:
            raise StopAsyncIteration

    async def send(self, data):
        await self._send(data)

    async def close(self):
        self._mark_closed()


# ---- quart: module-level `websocket` proxy with receive()/send(); a disconnect cancels the handler task ----------------
class QuartWS(_Inbox, _Outbox):
    def __init__(self, world, ep, out_dir, in_dir):
        self._init_inbox(world)
        self._init_outbox(ep, out_dir)

    async def receive(self):
        try:
            return await self._next()
        except (EOFError, ConnectionResetError):
            raise asyncio.CancelledError  # quart cancels the websocket handler when the peer is gone

    async def send(self, data):
        await self._send(data)


# ---- starlette / http3 client websocket: send_bytes / receive_bytes ----------------------------------------------------
class H3WS(_Inbox, _Outbox):
    def __init__(self, world, ep, out_dir, in_dir):
        self._init_inbox(world)
        self._init_outbox(ep, out_dir)

    async def receive_bytes(self):
        from starlette.websockets import WebSocketDisconnect
        try:
            return await self._next()
        except (EOFError, ConnectionResetError):
            raise WebSocketDisconnect(1006)

    async def send_bytes(self, data):
        await self._send(data)

    async def close(self, code=1000, reason=''):
        self._mark_closed()


# ---- django channels: the real AsyncRSocketConsumer with its ASGI send replaced -----------------------------------------
class ChanEnd(_Inbox, _Outbox):
    """Server end: incoming messages go through consumer.websocket_receive (channels) -> AsyncRSocketConsumer.receive;
    outgoing through ChannelsTransport -> consumer.send -> base_send (the ASGI callable)."""

    def __init__(self, world, ep, out_dir, in_dir):
        self._init_inbox(world)
        self._init_outbox(ep, out_dir)
        self.consumer = None
        self.asgi_messages = []

    async def base_send(self, message):
        self.asgi_messages.append(message.get('type'))
        if message.get('type') == 'websocket.send' and message.get('bytes') is not None:
            await self._send(message['bytes'])

    async def pump(self):
        while True:
            try:
                m = await self._next()
            except (EOFError, ConnectionResetError):
                await self.consumer.disconnect(1006)
                return
            await self.consumer.websocket_receive({'type': 'websocket.receive', 'bytes': m})


def run_sync(coro):
    """Run a coroutine that is known not to suspend."""
    try:
        coro.send(None)
    except StopIteration as e:
        return e.value
    coro.close()
    raise RuntimeError('coroutine suspended in run_sync')


# ---- quic: byte stream -------------------------------------------------------------------------------------------------
class _FakeQuic:
    def __init__(self, end):
        self.end = end

    def get_next_available_stream_id(self):
        return 0

    def send_stream_data(self, stream_id, data, end_stream=False):
        self.end.out.written(bytes(data), after_close=self.end.closed)


class QuicEnd:
    """Holds the real RSocketQuicProtocol (constructed without a QUIC connection) of one endpoint. Link chunks arrive as
    StreamDataReceived events, loss as ConnectionTerminated."""

    def __init__(self, world, ep, out_dir, in_dir, connected=True):
        from rsocket.transports.aioquic_transport import RSocketQuicProtocol
        self.world = world
        self.ep = ep
        self.out = out_dir
        self.closed = False
        self.close_calls = 0
        self.in_closed = False
        end = self

        class Proto(RSocketQuicProtocol):
            def __init__(self):  # the real constructors, with the QuicConnection replaced by a recorder
                super().__init__(_FakeQuic(end))

            def transmit(self):
                pass

            async def wait_connected(self):
                if not end.connected:
                    end._connected_waiter = world.loop.create_future()
                    await end._connected_waiter

            def close(self, *a, **k):
                end._mark_closed()

            async def wait_closed(self):
                return

            async def query(self, frame):
                if end.out.write_error:
                    raise ConnectionResetError('simulated write failure')
                await super().query(frame)
                await end.out.wait_writable()

        self.connected = connected
        self._connected_waiter = None
        self.proto = Proto()

    def _mark_closed(self):
        self.close_calls += 1
        if self.closed:
            return
        self.closed = True
        self.world.logev(('close', self.ep))
        self.out.fin = True

    def set_connected(self):
        self.connected = True
        if self._connected_waiter is not None and not self._connected_waiter.done():
            self._connected_waiter.set_result(None)

    # sink interface
    def feed_data(self, chunk):
        from aioquic.quic.events import StreamDataReceived
        self.proto.quic_event_received(StreamDataReceived(data=bytes(chunk), end_stream=False, stream_id=0))

    def _terminated(self):
        from aioquic.quic.events import ConnectionTerminated
        self.in_closed = True
        self.proto.quic_event_received(ConnectionTerminated(error_code=0, frame_type=None, reason_phrase='simulated'))

    def feed_eof(self):
        self._terminated()

    def feed_error(self, e):
        self._terminated()


def gated(base, conn, world):
    loop = world.loop

    class Gated(base):
        async def connect(self_inner):
            conn.connect_started = True
            world.logev(('connect', conn.cname))
            if not conn.gate_open:
                conn.gate = loop.create_future()
                await conn.gate
            await super().connect()

    Gated.__name__ = 'Gated' + base.__name__
    return Gated


def build(conn, world, flavour):
    """Fill in conn.ct / conn.st / conn.cw / conn.sw / sinks for one of the extra flavours. For 'chan' the server
    transport exists only after start_server (the consumer creates it)."""
    loop = world.loop
    c, s = conn.cname, conn.sname
    conn.server_pump = None
    conn.tasks = []
    if flavour == 'wsk':
        from rsocket.transports.websockets_transport import WebsocketsTransport
        conn.cw, conn.sw = WskWS(world, c, conn.c2s, conn.s2c), WskWS(world, s, conn.s2c, conn.c2s)
        conn.ct, conn.st = gated(WebsocketsTransport, conn, world)(), WebsocketsTransport()
        conn.tasks = [loop.create_task(conn.ct.handler(conn.cw)), loop.create_task(conn.st.handler(conn.sw))]
    elif flavour == 'quart':
        import rsocket.transports.quart_websocket as qmod
        from rsocket.transports.aiohttp_websocket import TransportAioHttpClient
        from mc.world import FakeWS
        conn.cw, conn.sw = FakeWS(world, c, conn.c2s, conn.s2c), QuartWS(world, s, conn.s2c, conn.c2s)
        qmod.websocket = conn.sw  # the request-context proxy of quart
        conn.ct, conn.st = gated(TransportAioHttpClient, conn, world)(None, conn.cw), qmod.TransportQuartWebsocket()
        conn.server_pump = loop.create_task(conn.st.handle_incoming_ws_messages())
    elif flavour == 'h3':
        from rsocket.transports.http3_transport import Http3TransportWebsocket
        conn.cw, conn.sw = H3WS(world, c, conn.c2s, conn.s2c), H3WS(world, s, conn.s2c, conn.c2s)
        conn.ct, conn.st = gated(Http3TransportWebsocket, conn, world)(conn.cw), Http3TransportWebsocket(conn.sw)
    elif flavour == 'chan':
        from rsocket.transports.asyncwebsockets_transport import TransportAsyncWebsocketsClient
        conn.cw, conn.sw = AwsWS(world, c, conn.c2s, conn.s2c), ChanEnd(world, s, conn.s2c, conn.c2s)
        conn.ct, conn.st = gated(TransportAsyncWebsocketsClient, conn, world)(conn.cw), None
    elif flavour == 'quic':
        from rsocket.transports.aioquic_transport import RSocketQuicTransport
        conn.cw, conn.sw = QuicEnd(world, c, conn.c2s, conn.s2c), QuicEnd(world, s, conn.s2c, conn.c2s)
        conn.ct = gated(RSocketQuicTransport, conn, world)(conn.cw.proto)
        conn.st = RSocketQuicTransport(conn.sw.proto)
    else:
        raise ValueError(flavour)
    conn.c2s.sink, conn.s2c.sink = conn.sw, conn.cw


def start_channels_server(w, conn, handler_factory, **kw):
    """The documented way: rsocket_consumer_factory(**server kwargs); the consumer creates transport and server in
    connect()."""
    from rsocket.transports.channels_transport import rsocket_consumer_factory
    cls = rsocket_consumer_factory(handler_factory=handler_factory, **kw)
    consumer = cls()
    end = conn.sw
    end.consumer = consumer
    consumer.base_send = end.base_send
    run_sync(consumer.connect())
    conn.st = consumer.transport
    conn.server_pump = w.loop.create_task(end.pump())
    return consumer.server
