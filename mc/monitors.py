"""Reference monitors evaluated over the totally ordered log of an execution (wire events at the transport boundary
of each endpoint, API events of the recording application). Each returns [(rule, signature, detail)]."""
from mc import refwire as R

KIND = {R.REQUEST_RESPONSE: 'rr', R.REQUEST_FNF: 'fnf', R.REQUEST_STREAM: 'stream', R.REQUEST_CHANNEL: 'channel'}

ALLOWED = {
    ('rr', 'requester'): {R.REQUEST_RESPONSE, R.CANCEL},
    ('rr', 'responder'): {R.PAYLOAD, R.ERROR},
    ('fnf', 'requester'): {R.REQUEST_FNF},
    ('fnf', 'responder'): set(),
    ('stream', 'requester'): {R.REQUEST_STREAM, R.REQUEST_N, R.CANCEL},
    ('stream', 'responder'): {R.PAYLOAD, R.ERROR},
    ('channel', 'requester'): {R.REQUEST_CHANNEL, R.PAYLOAD, R.REQUEST_N, R.CANCEL, R.ERROR},
    ('channel', 'responder'): {R.PAYLOAD, R.REQUEST_N, R.CANCEL, R.ERROR},
}


class _St:
    __slots__ = ('kind', 'role', 'tx_frag', 'rx_frag', 'tx_complete', 'rx_complete', 'tx_error', 'tx_cancel',
                 'rx_terminal', 'over', 'pending_rx')

    def __init__(self, kind, role):
        self.kind, self.role = kind, role
        self.tx_frag = False  # our fragmented frame in progress
        self.rx_frag = False
        self.tx_complete = kind in ('rr', 'stream', 'fnf') and role == 'requester'
        self.rx_complete = kind in ('rr', 'stream', 'fnf') and role == 'responder'
        self.tx_error = False
        self.tx_cancel = False
        self.rx_terminal = False  # peer ERROR processed
        self.over = None  # reason the stream is finished for our emissions
        self.pending_rx = []  # receptions not yet followed by a quiescence marker


def wire_legality(log, ep, role, lenient_unknown=False):
    """C08 reference automaton for endpoint `ep` ('client'/'server'), judged against its own receptions. A reception
    takes effect at the first quiescence marker after it (before that the endpoint may not have processed it)."""
    out = []
    parity = 1 if role == 'client' else 0
    streams = {}
    tx_seen = 0
    setups = 0
    lease_negotiated = [False]

    def bad(rule, st, f, ctx, detail=None):
        who = '%s/%s' % (st.role, st.kind) if st is not None else role
        out.append(('C08.' + rule, 'C08.%s | %s | %s | %s' % (rule, who, f.name, ctx),
                    detail or '%s emitted %r (%s)' % (ep, f, ctx)))

    def apply_rx(st, f):
        if f.type == R.ERROR:
            st.rx_terminal = True
            st.over = st.over or 'after-peer-error'
        elif f.type == R.PAYLOAD:
            if not f.follows and f.complete:
                st.rx_complete = True
        elif f.type == R.CANCEL and st.role == 'requester':
            # channel: responder cancels our sending direction
            pass
        if st.tx_complete and st.rx_complete and st.over is None:
            st.over = 'after-both-complete'

    for ev in log:
        k = ev[0]
        if k == 'q':
            for st in streams.values():
                if st.pending_rx:
                    for f in st.pending_rx:
                        apply_rx(st, f)
                    st.pending_rx = []
            continue
        if k not in ('tx', 'rx') or ev[1] != ep:
            continue
        f = ev[2]
        if k == 'rx':
            if not f.bad and f.sid == 0 and f.type == R.SETUP and (f.flags & R.F_LEASE):
                lease_negotiated[0] = True  # the peer (client) asked for leases in its SETUP
            if f.bad or f.sid <= 0:
                continue
            st = streams.get(f.sid)
            if f.type in R.REQUEST_TYPES:
                if st is None or (st.over is not None and not st.pending_rx):
                    st = _St(KIND[f.type], 'responder')
                    streams[f.sid] = st
                    st.rx_frag = f.follows
                    if f.type == R.REQUEST_CHANNEL and not f.follows and f.complete:
                        st.rx_complete = True
                continue
            if st is None:
                continue
            st.pending_rx.append(f)
            continue
        # ---- our own emission ---------------------------------------------------------------------------------
        tx_seen += 1
        if f.bad:
            out.append(('C08.wellformed', 'C08.wellformed | %s | %s' % (role, f.bad), '%s emitted an undecodable frame' % ep))
            continue
        if role == 'client':
            if tx_seen == 1 and f.type != R.SETUP:
                bad('setup-first', None, f, 'first-frame')
            if f.type == R.SETUP:
                setups += 1
                if setups > 1:
                    bad('setup-once', None, f, 'second-setup')
                if f.flags & R.F_LEASE:
                    lease_negotiated[0] = True
        elif f.type == R.SETUP:
            bad('setup-first', None, f, 'server-sent-setup')
        if f.type in (R.SETUP, R.KEEPALIVE, R.LEASE, R.METADATA_PUSH, R.RESUME, R.RESUME_OK):
            if f.sid != 0:
                bad('connection-frames-stream-0', None, f, 'sid=%d' % f.sid)
            if f.type == R.LEASE and not lease_negotiated[0]:
                bad('frame-type-for-role', None, f, 'lease-not-negotiated', '%s emitted LEASE on a connection whose SETUP did not carry the lease flag' % ep)
            continue
        if f.sid == 0:
            if f.type != R.ERROR:
                bad('stream-frame-on-stream-0', None, f, 'sid=0')
            continue
        st = streams.get(f.sid)
        if f.type in R.REQUEST_TYPES:
            if st is not None and st.over is None:
                bad('request-on-live-id', st, f, 'live')
                continue
            if (f.sid & 1) != parity:
                bad('stream-id-parity', None, f, 'sid=%d' % (f.sid & 1))
            st = _St(KIND[f.type], 'requester')
            streams[f.sid] = st
            st.tx_frag = f.follows
            if f.type in (R.REQUEST_STREAM, R.REQUEST_CHANNEL) and not (0 < (f.request_n or 0) <= 0x7FFFFFFF):
                bad('initial-request-n-positive', st, f, 'n=%s' % f.request_n)
            if f.type == R.REQUEST_CHANNEL and not f.follows and f.complete:
                st.tx_complete = True
            if f.type == R.REQUEST_FNF and not f.follows:
                st.over = 'after-fnf'
            continue
        if st is None:
            if not lenient_unknown:
                bad('first-frame-is-request', None, f, 'unopened-stream')
            continue
        # continuation of our own fragmented frame
        if st.tx_frag:
            if f.type == R.PAYLOAD:
                if st.over in ('after-own-cancel', 'after-own-error') and st.kind != 'channel':
                    # the tail of a fragmented frame emitted after our own CANCEL / ERROR went out in the middle of it
                    bad('nothing-after-termination', st, f, st.over + '-mid-fragment')
                st.tx_frag = f.follows
                if not f.follows:
                    if st.kind == 'fnf':
                        st.over = 'after-fnf'
                    if f.complete:
                        st.tx_complete = True
                        if st.rx_complete and st.over is None:
                            st.over = 'after-both-complete'
                continue
            # another frame type in the middle of our fragmented frame: judged by C05; role rules still apply below
        if st.over is not None:
            if st.kind == 'channel' and st.over in ('after-own-cancel', 'after-peer-error', 'after-own-error'):
                # one history class whatever the frame type: the channel was terminated by ERROR / requester CANCEL
                # and the endpoint keeps using it (see known findings: half-close semantics)
                out.append(('C08.nothing-after-termination', 'C08.nothing-after-termination | %s/channel | any-frame | %s' % (st.role, st.over),
                            '%s emitted %r (%s)' % (ep, f, st.over)))
            else:
                bad('nothing-after-termination', st, f, st.over)
            continue
        if f.type not in ALLOWED[(st.kind, st.role)]:
            bad('frame-type-for-role', st, f, 'not-allowed')
            continue
        if f.type == R.PAYLOAD:
            if st.tx_complete and not st.tx_frag:
                bad('no-payload-after-own-complete', st, f, 'after-own-complete')
                continue
            st.tx_frag = f.follows
            if not f.follows and f.complete:
                st.tx_complete = True
        elif f.type == R.ERROR:
            st.tx_error = True
            st.over = 'after-own-error'
        elif f.type == R.CANCEL:
            if st.role == 'requester':
                st.tx_cancel = True
                st.over = 'after-own-cancel'
        elif f.type == R.REQUEST_N:
            if not (0 < (f.request_n or 0) <= 0x7FFFFFFF):
                bad('request-n-positive', st, f, 'n=%s' % f.request_n)
        if st.tx_complete and st.rx_complete and st.over is None:
            st.over = 'after-both-complete'
    return out


def subscriber_grammar(sub, prop='C07'):
    """on_subscribe (on_next)* (on_complete | on_error | on_next[complete])? and nothing after the terminal."""
    out = []
    sig = sub.signals
    if not sig:
        return out
    s = ''.join(('n' if (x[0] == 'N' and not x[2]) else ('T' if x[0] == 'N' else x[0])) for x in sig)
    name = sub.name.rstrip('0123456789')
    if s[0] != 'S':
        out.append(('%s.on-subscribe-first' % prop, '%s.on-subscribe-first | %s | first=%s' % (prop, name, s[0]),
                    'subscriber %s signal string %s' % (sub.name, s)))
    body = s[1:] if s[0] == 'S' else s
    if 'S' in body:
        out.append(('%s.on-subscribe-once' % prop, '%s.on-subscribe-once | %s' % (prop, name), 'subscriber %s signals %s' % (sub.name, s)))
        body = body.replace('S', '')
    for i, ch in enumerate(body):
        if ch in 'CET' and i != len(body) - 1:
            out.append(('%s.nothing-after-terminal' % prop, '%s.nothing-after-terminal | %s | %s-then-%s' % (
                prop, name, {'C': 'on_complete', 'E': 'on_error', 'T': 'on_next[complete]'}[ch],
                {'C': 'on_complete', 'E': 'on_error', 'T': 'on_next[complete]', 'n': 'on_next'}[body[i + 1]]),
                        'subscriber %s signals %s' % (sub.name, s)))
            break
    return out


def future_once(rec, prop='C07'):
    out = []
    fut = rec['future']
    attempts = getattr(fut, 'attempts', None)
    if attempts is not None:
        ok = [a for a in attempts if a[1]]
        rejected = [a for a in attempts if not a[1] and a[0] != 'cancel']
        if len(ok) > 1:
            out.append(('%s.future-once' % prop, '%s.future-once | %s | completed-%d-times' % (prop, rec['name'].rstrip('0123456789'), len(ok)),
                        'future %s attempts %s' % (rec['name'], attempts)))
        if rejected:
            out.append(('%s.future-once' % prop, '%s.future-once | %s | rejected-second-%s' % (
                prop, rec['name'].rstrip('0123456789'), rejected[0][0]), 'future %s attempts %s' % (rec['name'], attempts)))
    return out


def credit(log, ep, prop='C06'):
    """Producer-side credit: payload elements begun on a stream <= initial n + sum of REQUEST_N received (fed to
    the endpoint) so far. Applies to streams on which `ep` produces: responder of stream/channel, requester of channel."""
    out = []
    streams = {}  # sid -> dict(credit, sent, role, frag)
    flagged = set()
    for ev in log:
        if ev[0] not in ('tx', 'rx') or ev[1] != ep:
            continue
        f = ev[2]
        if f.bad or f.sid <= 0:
            continue
        if ev[0] == 'rx':
            if f.type in (R.REQUEST_STREAM, R.REQUEST_CHANNEL):
                streams[f.sid] = {'credit': f.request_n, 'sent': 0, 'role': 'responder', 'frag': False,
                                  'kind': KIND[f.type]}
            elif f.type == R.REQUEST_N and f.sid in streams:
                streams[f.sid]['credit'] += f.request_n
            continue
        if f.type == R.REQUEST_CHANNEL:
            streams[f.sid] = {'credit': 0, 'sent': 0, 'role': 'requester', 'frag': f.follows, 'kind': 'channel',
                              'reqfrag': f.follows}
            continue
        st = streams.get(f.sid)
        if st is None or f.type != R.PAYLOAD:
            continue
        if st.get('reqfrag'):
            st['reqfrag'] = f.follows
            continue
        if st['frag']:
            st['frag'] = f.follows
            continue
        st['frag'] = f.follows
        if f.next:
            st['sent'] += 1
            if st['sent'] > st['credit'] and f.sid not in flagged:
                flagged.add(f.sid)
                out.append(('%s.credit' % prop, '%s.credit | %s/%s | over-by-%d' % (prop, st['role'], st['kind'], st['sent'] - st['credit']),
                            '%s began element #%d on stream %d with total credit %d' % (ep, st['sent'], f.sid, st['credit'])))
    return out


def open_state(sock):
    """What the suite's assert_no_open_streams observes, extended to the reassembly cache."""
    streams = sorted(getattr(sock._stream_control, '_streams', {}).keys())
    partial = sorted(getattr(sock._frame_fragment_cache, '_frames_by_stream_id', {}).keys())
    return streams, partial
