"""C01 End-to-end payload delivery and correlation: DEV exploration of mixes of interactions on two real endpoints."""
import itertools

from mc.explore import dev_explore, replay_witness
from mc.scen2 import Inter, Mix

RULE = ('DEV: every unordered pair (thorough: selected triples) of interactions from {request-response (immediate/late), '
        'fire-and-forget, metadata-push, stream(k), channel(k up,k down)} x initiator {client, server}, x link {tcp, msg} x '
        'fragment size {None, 64}; all schedules with <= bound deviations from the default (deliver whole frames first, '
        'then application actions) over the event alphabet {deliver frame, deliver all pending bytes, deliver first k '
        'bytes k in {1,2,3,9,len-1}, next action of each application actor} x run mode {quiesce, no loop iteration}; '
        'non-trivial = execution of a mix with >=2 interactions (frames of >=2 streams in flight)')
EXPLANATION = 'stateless deviation-bounded exploration; every execution is a complete run of the real client and server'
ASSUMPTIONS = ['asyncio ready queue is FIFO (not permuted)', 'publishers respect credit (legal application)',
               'payload contents are tagged by interaction/role/sequence number and contain 0x00 and 0xFF']
BUDGET_S = {'quick': 240, 'thorough': 3000}


def alphabet(fs, variant):
    size = 'F' if fs else 'S'
    pubs = ('manual', 'gen', 'agen')
    ks = (3, 1, 0)
    items = []
    for init in ('c', 's'):
        items.append(('rr', dict(kind='rr', init=init, rr_mode='now' if variant % 2 == 0 else 'late', size=size)))
        items.append(('fnf', dict(kind='fnf', init=init, size=size)))
        items.append(('push', dict(kind='push', init=init, size='M' if fs else 'S')))
        items.append(('stream', dict(kind='stream', init=init, down=ks[variant % 3], size=size, pub=pubs[variant % 3],
                                     credit='max' if variant % 2 == 0 else 'one',
                                     ending='flag' if variant % 2 else 'complete')))
        items.append(('channel', dict(kind='channel', init=init, down=ks[(variant + 1) % 3] or 2, up=ks[variant % 3], size=size,
                                      pub='manual' if variant % 2 == 0 else pubs[variant % 3],
                                      credit='one' if variant % 2 == 0 else 'max',
                                      ending='complete' if variant % 2 else 'flag', up_ending='flag' if variant % 2 else 'complete')))
    return items


def make_units(tier):
    units = []
    n = 0
    from mc.links import ALL_FLAVOURS
    for fi, flavour in enumerate(('tcp', 'msg') + tuple(f for f in ALL_FLAVOURS if f not in ('tcp', 'msg'))):
        extra = flavour not in ('tcp', 'msg')  # the other transport classes: a fifth of the pairs each in quick, all in thorough
        for fs in (None, 64) if (tier == 'quick' or extra) else (None, 64, 97):
            for variant in ((0,) if (tier == 'quick' or extra) else (0, 1, 2)):
                items = alphabet(fs, variant)
                for (i, a), (j, c) in itertools.combinations_with_replacement(list(enumerate(items)), 2):
                    n += 1
                    if extra and tier == 'quick' and (n + fi) % 5:
                        continue
                    v = (variant + n) % 6 if tier == 'quick' else variant
                    its = alphabet(fs, v)
                    A, B = dict(its[i][1]), dict(its[j][1])
                    A['tag'], B['tag'] = 'A', 'B'
                    bound = 1
                    if extra:
                        bound = 1
                    elif tier == 'thorough':
                        # sized to finish within the budget on 16 cores: bound 2 for the base variant at fs None/64
                        bound = 2 if (variant == 0 and fs != 97 and flavour == 'tcp') else 1
                    elif n % 53 == 0:
                        bound = 2
                    K = 1 if bound == 1 else 16
                    for pol in (('deliver-first', 'app-first-batch') if bound == 1 else ('deliver-first',)):
                        for k in range(K):
                            units.append({'name': '%s+%s' % (A['kind'] + A['init'], B['kind'] + B['init']), 'inters': [A, B],
                                          'flavour': flavour, 'fs': fs, 'bound': bound, 'shard': [k, K], 'policy': pol})
                if variant == 0 and fs and (not extra or flavour in ('quic', 'wsk')):
                    # publisher pacing "alternating + slow sender": two streams/channels answered by the same side, manual
                    # publishers emitting A0,B0,A1,B1,... as one actor; the writer may be blocked (blk alternative)
                    for init in ('c', 's'):
                        for kinds in (('stream', 'stream'), ('stream', 'channel'), ('channel', 'channel')):
                            ds = []
                            for tg, kd in zip('AB', kinds):
                                d = dict(kind=kd, init=init, tag=tg, down=3 if tg == 'A' else 2, up=0 if kd == 'stream' else 1, size='F',
                                         pub='manual', credit='max', ending='flag' if tg == 'A' else 'complete')
                                ds.append(d)
                            units.append({'name': 'alternating:%s+%s/%s' % (kinds[0], kinds[1], init), 'inters': ds, 'flavour': flavour, 'fs': fs,
                                          'bound': 1 if tier == 'quick' else 2, 'shard': [0, 1], 'round_robin': True, 'slow_sender': True})
                if tier == 'thorough' and variant == 0 and not extra:
                    for trip in itertools.combinations(range(len(items)), 3):
                        if sum(trip) % 7:
                            continue
                        ds = [dict(items[t][1]) for t in trip]
                        for d, tg in zip(ds, 'ABC'):
                            d['tag'] = tg
                        units.append({'name': 'triple', 'inters': ds, 'flavour': flavour, 'fs': fs, 'bound': 1, 'shard': [0, 1]})
    # request objects created in one order and subscribed in the reverse order (ids allocated at creation, request frames sent
    # at subscribe): every pair of stream / channel interactions, both initiators, both framings
    for flavour in ('tcp', 'msg'):
        for fs in (None, 64):
            for ka, kb in (('stream', 'stream'), ('stream', 'channel'), ('channel', 'channel'), ('channel', 'stream')):
                for ia, ib in (('c', 'c'), ('s', 's'), ('c', 's')):
                    ds = []
                    for tg, kd, ini in (('A', ka, ia), ('B', kb, ib)):
                        ds.append(dict(kind=kd, init=ini, tag=tg, down=2, up=1 if kd == 'channel' else 0, size='F' if fs else 'S', pub='manual',
                                       credit='max', ending='flag' if tg == 'A' else 'complete'))
                    units.append({'name': 'lazy-reverse:%s%s+%s%s' % (ka, ia, kb, ib), 'inters': ds, 'flavour': flavour, 'fs': fs, 'bound': 1,
                                  'shard': [0, 1], 'lazy_reverse': True})
    # all further credit granted by subscription.request(n) from inside on_subscribe on top of a small initial request-n, and never
    # again: every element beyond the initial credit depends on that one call
    for flavour in ('tcp', 'msg'):
        for fs in (None, 64):
            for kd in ('stream', 'channel'):
                for init in ('c', 's'):
                    for pub in ('manual', 'gen'):
                        ds = [dict(kind=kd, init=init, tag='A', down=3, up=1 if kd == 'channel' else 0, size='F' if fs else 'S', pub=pub, credit='onsub',
                                   ending='flag' if pub == 'gen' else 'complete'),
                              dict(kind='rr', init='s' if init == 'c' else 'c', tag='B', rr_mode='now', size='F' if fs else 'S')]
                        units.append({'name': 'credit-in-on_subscribe:%s%s/%s' % (kd, init, pub), 'inters': ds, 'flavour': flavour, 'fs': fs, 'bound': 1,
                                      'shard': [0, 1]})
    # a channel whose responder cancels its inbound side (inside on_subscribe / after the requester's first element) and goes on
    # answering: the other direction is untouched
    for flavour in ('tcp', 'msg'):
        for fs in (None, 64):
            for init in ('c', 's'):
                for rc in ('onsub', 1):
                    for pub in ('manual', 'gen'):
                        ds = [dict(kind='channel', init=init, tag='A', down=3, up=2, size='F' if fs else 'S', pub=pub, credit='max',
                                   ending='flag' if pub == 'gen' else 'complete', resp_cancel=rc),
                              dict(kind='rr', init='s' if init == 'c' else 'c', tag='B', rr_mode='now', size='F' if fs else 'S')]
                        units.append({'name': 'responder-cancels-inbound:%s/%s/%s' % (init, rc, pub), 'inters': ds, 'flavour': flavour, 'fs': fs, 'bound': 1,
                                      'shard': [0, 1]})
    return units


def bounds(tier):
    us = make_units(tier)
    return {'scenario_configs': len({(u['name'], u['flavour'], u['fs'], repr(u['inters'])) for u in us}), 'deviation_bounds': sorted({u['bound'] for u in us}),
            'bound2_units': sum(1 for u in us if u['bound'] >= 2)}


def scenario_of(unit):
    alts = ('all', 'chunk') if unit['flavour'] in ('tcp', 'quic') else ('all',)
    return Mix([Inter.from_spec(_full(d)) for d in unit['inters']], unit['flavour'], unit['fs'], alts=alts,
               modes=('Q', '0'), monitors_=('delivery',), name='mix', policy=unit.get('policy', 'deliver-first'), round_robin=unit.get('round_robin', False), slow_sender=unit.get('slow_sender', False), lazy_reverse=unit.get('lazy_reverse', False))


def _full(d):
    base = Inter('rr', 'c', 'A').spec()
    base.update(d)
    return base


def run_unit(unit, part):
    scn = scenario_of(unit)
    dev_explore(scn, unit['bound'], part, shard=tuple(unit.get('shard', (0, 1))), det_every=200, max_execs=unit.get('max_execs'))


def scenario_from(name, params):
    return Mix.from_params(params, name)


def replay(rec):
    w = rec['witness']
    return bool(replay_witness(scenario_from(w['scenario'], w['params']), w))
