"""C02 Frame codec: complete product of per-field boundary alphabets for each of the 14 frame classes; round-trip,
canonical bytes, incremental (TransportTCP) form, and independence from the optional cbitstruct backend."""
import itertools
import json
import os
import subprocess
import sys

from mc.runner import h64

RULE = ('PROD: for each of the 14 frame classes the complete cartesian product of the per-field alphabets listed under '
        'bounds; plus all 2^16 values of the type/flags half-word x 3 stream ids through both header parsers; each case: '
        'decode(encode(x)) has the same fields, re-encoding gives the same bytes, bytes written by the real '
        'TransportTCP.send_frame == 3-byte length + serialize(), and the table of results computed in a child process '
        'with cbitstruct blocked is identical; non-trivial = case with at least one non-default field; states = distinct '
        'encoded byte strings; transitions = encode/decode calls')
EXPLANATION = 'exhaustive enumeration of finite per-field alphabets (no sampling); second backend via child process with sys.modules["cbitstruct"]=None'
ASSUMPTIONS = ['values outside the alphabets (e.g. MIME length 64) are represented by the boundary values',
               'no external "spec bytes" oracle is used for the verdict: a consistent layout change keeps C02 true']
BUDGET_S = {'quick': 240, 'thorough': 1800}

SIDS = (1, 2, 0x7FFFFFFF)
BLOB = bytes((i * 37 + 11) % 256 for i in range(300))
PAYLOADS = (b'', b'\x01', b'\x00\xff\x7f', BLOB)
N31 = (1, 2, 0x7FFFFFFF, 0x80000000, 0xFFFFFFFF)  # the request-n field is 32 bits on the wire
POS = (0, 1, 0x7FFFFFFFFFFFFFFF)
MS = (0, 1, 0x7FFFFFFF)
MIMES = (b'a', b'application/json', b'm' * 127)
TOKENS = (b'', b't', b'0123456789abcdef', b'\xab' * 65535)
CLASSES = ('SetupFrame', 'LeaseFrame', 'KeepAliveFrame', 'RequestResponseFrame', 'RequestFireAndForgetFrame',
           'RequestStreamFrame', 'RequestChannelFrame', 'RequestNFrame', 'CancelFrame', 'PayloadFrame', 'ErrorFrame',
           'MetadataPushFrame', 'ResumeFrame', 'ResumeOKFrame')


def thorough_extra():
    return {'mime_lengths': list(range(1, 128)), 'big_data': (1 << 24) - 1 - 64}


def bounds(tier):
    return {'stream_ids': [0] + list(SIDS), 'payload_lengths': [len(p) for p in PAYLOADS], 'request_n': list(N31),
            'positions': list(POS), 'milliseconds': list(MS), 'mime_lengths': [len(m) for m in MIMES] if tier == 'quick' else 'all 1..127',
            'token_lengths': [len(t) for t in TOKENS], 'error_codes': 'every ErrorCode member', 'versions': [[1, 0], [0, 2]],
            'header_space': '65536 type/flags half-words x 3 stream ids'}


def cases(cls, tier):
    """Yield dicts field->value: the complete product for one class."""
    B = (False, True)
    if cls == 'SetupFrame':
        mimes = MIMES if tier == 'quick' else tuple(b'x' * n for n in range(1, 128))
        mime_pairs = list(itertools.product(MIMES, MIMES)) if tier == 'quick' else [(m, MIMES[1]) for m in mimes] + [(MIMES[1], m) for m in mimes]
        for ver, ka, lt, lease, tok, (mm, dm), d, m, ig in itertools.product(
                ((1, 0), (0, 2)), MS, MS, B, (None,) + TOKENS, mime_pairs, PAYLOADS, PAYLOADS, B):
            yield dict(major_version=ver[0], minor_version=ver[1], keep_alive_milliseconds=ka, max_lifetime_milliseconds=lt,
                       flags_lease=lease, flags_resume=tok is not None, token=tok, metadata_encoding=mm, data_encoding=dm,
                       data=d, metadata=m, flags_ignore=ig, stream_id=0)
    elif cls == 'LeaseFrame':
        for ttl, n, m, ig in itertools.product(MS, MS, (b'', b'\x01', BLOB), B):
            yield dict(time_to_live=ttl, number_of_requests=n, metadata=m, flags_ignore=ig, stream_id=0)
    elif cls == 'KeepAliveFrame':
        for r, p, d, ig in itertools.product(B, POS, PAYLOADS, B):
            yield dict(flags_respond=r, last_received_position=p, data=d, flags_ignore=ig, stream_id=0)
    elif cls in ('RequestResponseFrame', 'RequestFireAndForgetFrame'):
        for sid, fo, d, m, ig in itertools.product(SIDS, B, PAYLOADS, PAYLOADS, B):
            yield dict(stream_id=sid, flags_follows=fo, data=d, metadata=m, flags_ignore=ig)
    elif cls == 'RequestStreamFrame':
        for sid, fo, n, d, m, ig in itertools.product(SIDS, B, N31, PAYLOADS, PAYLOADS, B):
            yield dict(stream_id=sid, flags_follows=fo, initial_request_n=n, data=d, metadata=m, flags_ignore=ig)
    elif cls == 'RequestChannelFrame':
        for sid, fo, co, n, d, m, ig in itertools.product(SIDS, B, B, N31, PAYLOADS, PAYLOADS, B):
            yield dict(stream_id=sid, flags_follows=fo, flags_complete=co, initial_request_n=n, data=d, metadata=m, flags_ignore=ig)
    elif cls == 'RequestNFrame':
        for sid, n, ig in itertools.product(SIDS, N31, B):
            yield dict(stream_id=sid, request_n=n, flags_ignore=ig)
    elif cls == 'CancelFrame':
        for sid, ig in itertools.product(SIDS, B):
            yield dict(stream_id=sid, flags_ignore=ig)
    elif cls == 'PayloadFrame':
        for sid, fo, co, nx, d, m, ig in itertools.product(SIDS, B, B, B, PAYLOADS, PAYLOADS, B):
            yield dict(stream_id=sid, flags_follows=fo, flags_complete=co, flags_next=nx, data=d, metadata=m, flags_ignore=ig)
    elif cls == 'ErrorFrame':
        from rsocket.error_codes import ErrorCode
        for sid, code, d, ig in itertools.product((0,) + SIDS, list(ErrorCode), PAYLOADS, B):
            yield dict(stream_id=sid, error_code=code, data=d, flags_ignore=ig)
    elif cls == 'MetadataPushFrame':
        for m, ig in itertools.product(PAYLOADS, B):
            yield dict(stream_id=0, metadata=m, flags_ignore=ig)
    elif cls == 'ResumeFrame':
        for ver, tok, p1, p2, ig in itertools.product(((1, 0), (0, 2)), TOKENS, POS, POS, B):
            yield dict(stream_id=0, major_version=ver[0], minor_version=ver[1], token=tok, last_server_position=p1,
                       first_client_position=p2, flags_ignore=ig)
    elif cls == 'ResumeOKFrame':
        for p, ig in itertools.product(POS, B):
            yield dict(stream_id=0, last_received_client_position=p, flags_ignore=ig)
    if cls in ('PayloadFrame', 'RequestResponseFrame', 'RequestStreamFrame', 'RequestChannelFrame', 'RequestFireAndForgetFrame'):
        # lengths that need the 2nd / 3rd byte of the 24-bit fields
        for dl, ml in ((70000, 1), (255, 65536), (65535, 256)):
            d = dict(stream_id=3, data=bytes(dl), metadata=bytes(ml), flags_ignore=False)
            if cls in ('RequestStreamFrame', 'RequestChannelFrame'):
                d['initial_request_n'] = 2
            yield d
    if tier == 'thorough' and cls in ('PayloadFrame', 'RequestResponseFrame', 'RequestStreamFrame', 'RequestChannelFrame',
                                      'RequestFireAndForgetFrame'):
        big = bytes(thorough_extra()['big_data'])
        d = dict(stream_id=1, data=big, metadata=b'\x01', flags_ignore=False)
        if cls in ('RequestStreamFrame', 'RequestChannelFrame'):
            d['initial_request_n'] = 1
        yield d


def build(cls, case):
    import rsocket.frame as F
    f = getattr(F, cls)()
    for k, v in case.items():
        if k == 'token':
            if v is not None:
                f.resume_identification_token = v
                f.token_length = len(v)
        else:
            setattr(f, k, v)
    return f


COMPARE = {
    'SetupFrame': ('major_version', 'minor_version', 'keep_alive_milliseconds', 'max_lifetime_milliseconds', 'flags_lease',
                   'flags_resume', 'metadata_encoding', 'data_encoding', 'data', 'metadata'),
    'LeaseFrame': ('time_to_live', 'number_of_requests', 'metadata'),
    'KeepAliveFrame': ('flags_respond', 'last_received_position', 'data'),
    'RequestResponseFrame': ('flags_follows', 'data', 'metadata'),
    'RequestFireAndForgetFrame': ('flags_follows', 'data', 'metadata'),
    'RequestStreamFrame': ('flags_follows', 'initial_request_n', 'data', 'metadata'),
    'RequestChannelFrame': ('flags_follows', 'flags_complete', 'initial_request_n', 'data', 'metadata'),
    'RequestNFrame': ('request_n',),
    'CancelFrame': (),
    'PayloadFrame': ('flags_follows', 'flags_complete', 'data', 'metadata'),
    'ErrorFrame': ('error_code', 'data'),
    'MetadataPushFrame': ('metadata',),
    'ResumeFrame': ('major_version', 'minor_version', 'last_server_position', 'first_client_position'),
    'ResumeOKFrame': ('last_received_client_position',),
}


def norm(v):
    if isinstance(v, (bytes, bytearray, memoryview)):
        return bytes(v)
    if v is None:
        return b''
    if isinstance(v, bool):
        return bool(v)
    return int(v) if isinstance(v, int) else v


class _W:
    def __init__(self):
        self.chunks = []

    def write(self, data):
        self.chunks.append(bytes(data))

    async def drain(self):
        return


def transport_bytes(frame):
    from rsocket.transports.tcp import TransportTCP
    w = _W()
    t = TransportTCP(None, w)
    coro = t.send_frame(frame)
    try:
        coro.send(None)
        raise RuntimeError('send_frame suspended on a writer that never blocks')
    except StopIteration:
        pass
    return b''.join(w.chunks)


def eval_case(cls, case):
    """Returns (result tuple for the backend table, list of violations (rule, tagsuffix, detail))."""
    from rsocket.frame import parse_or_ignore, serialize_with_frame_size_header
    viol = []
    try:
        f = build(cls, case)
        raw = f.serialize()
    except Exception as e:
        return ('encode-exc', type(e).__name__), [('encode', 'exception-%s' % type(e).__name__, 'encode raised %r' % e)]
    try:
        g = parse_or_ignore(raw)
    except Exception as e:
        return (raw, 'decode-exc', type(e).__name__), [('roundtrip-fields', 'decode-exception-%s' % type(e).__name__,
                                                        'decode of own encoding raised %r' % e)]
    if g is None or type(g).__name__ != cls:
        return (raw, 'decode-none'), [('roundtrip-fields', 'decoded-as-%s' % type(g).__name__, 'decoded %r' % g)]
    fields = []
    for a in ('stream_id', 'flags_ignore') + COMPARE[cls]:
        want = norm(case.get(a, getattr(f, a, None)))
        got = norm(getattr(g, a, None))
        fields.append((a, got))
        if a == 'flags_ignore':
            want, got = bool(want), bool(got)
        if want != got:
            viol.append(('roundtrip-fields', 'field=%s' % a, 'field %s: encoded %r decoded %r' % (a, _s(want), _s(got))))
    if cls in ('SetupFrame', 'ResumeFrame') and case.get('token') is not None:
        got = norm(getattr(g, 'resume_identification_token', None))
        fields.append(('token', got))
        if got != case['token']:
            viol.append(('roundtrip-fields', 'field=resume_token', 'resume token of %d bytes decoded as %d bytes' % (len(case['token']), len(got))))
    if cls == 'PayloadFrame':
        has_content = bool(case['data']) or bool(case['metadata'])
        want_next = True if has_content else bool(case['flags_next'])
        fields.append(('flags_next', bool(g.flags_next)))
        if bool(g.flags_next) != want_next:
            viol.append(('roundtrip-fields', 'field=flags_next', 'payload next flag decoded %r, expected %r' % (g.flags_next, want_next)))
    try:
        raw2 = g.serialize()
        if raw2 != raw:
            viol.append(('canonical-bytes', 're-encode-differs', 're-encoding the decoded frame changed the bytes (%d vs %d)' % (len(raw2), len(raw))))
    except Exception as e:
        viol.append(('canonical-bytes', 're-encode-exception-%s' % type(e).__name__, 're-encode raised %r' % e))
    try:
        tb = transport_bytes(build(cls, case))
        exp = len(raw).to_bytes(3, 'big') + raw
        if tb != exp:
            kind = 'length-prefix' if tb[3:] == raw else 'body'
            viol.append(('incremental-form', kind, 'TransportTCP wrote %d bytes (prefix %s), one-shot encoding is %d bytes' % (
                len(tb), tb[:3].hex(), len(raw))))
        sw = serialize_with_frame_size_header(build(cls, case))
        if sw != exp:
            viol.append(('incremental-form', 'serialize_with_frame_size_header', 'differs from 3-byte length + serialize()'))
    except Exception as e:
        viol.append(('incremental-form', 'exception-%s' % type(e).__name__, 'transport write raised %r' % e))
    return (raw, tuple(fields)), viol


def _s(v):
    r = repr(v)
    return r if len(r) < 60 else r[:60] + '...'


def table_hashes(cls, tier, k=0, K=1):
    return [h64(repr(eval_case(cls, c)[0])) for i, c in enumerate(cases(cls, tier)) if i % K == k]


def header_table():
    """Both header parsers over the raw header space (in this process: whichever backends are importable)."""
    import rsocket.frame as F
    out = []
    for sid in (0, 1, 0x7FFFFFFF):
        pre = sid.to_bytes(4, 'big')
        for hw in range(65536):
            buf = pre + hw.to_bytes(2, 'big')
            h = F.Header()
            try:
                fl = F.ParseHelper.parse_header(h, buf, 0)
                out.append((int(h.stream_id), int(h.frame_type), bool(h.flags_ignore), bool(h.flags_metadata),
                            bool(fl.flags_follows_resume_respond), bool(fl.flags_complete_lease), bool(fl.flags_next)))
            except Exception as e:
                out.append(type(e).__name__)
    return out


def make_units(tier):
    units = []
    for c in CLASSES:
        K = 12 if c == 'SetupFrame' else (2 if c in ('PayloadFrame', 'RequestChannelFrame', 'ResumeFrame') else 1)
        for k in range(K):
            units.append({'kind': 'class', 'cls': c, 'tier': tier, 'shard': [k, K]})
    units.append({'kind': 'headers', 'tier': tier})
    return units


def child_table(what, tier, k=0, K=1):
    env = dict(os.environ)
    env['PYTHONPATH'] = os.path.dirname(os.path.dirname(os.path.dirname(os.path.abspath(__file__))))
    src = os.environ.get('RSOCKET_SRC')
    code = ('import sys\n'
            + ('sys.path.insert(0, %r)\n' % src if src else '')
            + 'sys.modules["cbitstruct"] = None\n'
              'import json\n'
              'from mc.props import c02\n'
              'import rsocket.frame as F\n'
              'assert F.ParseHelper.parse_header is F.parse_header_native\n'
              'what, tier = %r, %r\n'
              'out = c02.header_table() if what == "headers" else c02.table_hashes(what, tier, %d, %d)\n'
              'json.dump(out, sys.stdout)\n' % (what, tier, k, K))
    p = subprocess.run([sys.executable, '-c', code], env=env, stdout=subprocess.PIPE, stderr=subprocess.PIPE, text=True)
    if p.returncode != 0:
        raise RuntimeError('child failed: ' + p.stderr[-2000:])
    return json.loads(p.stdout)


def run_unit(unit, part):
    tier = unit['tier']
    if unit['kind'] == 'headers':
        import rsocket.frame as F
        mine = header_table()
        other = child_table('headers', tier)
        part.evaluations += len(mine)
        part.transitions += 2 * len(mine)
        part.traces += len(mine)
        have_cb = hasattr(F, 'parse_header_cbitstruct')
        part.extra['cbitstruct_backend_present'] = int(have_cb)
        for i, (a, b_) in enumerate(zip(mine, other)):
            if (list(a) if isinstance(a, tuple) else a) != b_:
                sid = (0, 1, 0x7FFFFFFF)[i // 65536]
                part.violate('C02.backend-independence', 'C02.backend-independence | header-parser',
                             'header half-word 0x%04x sid %d: %r vs %r' % (i % 65536, sid, a, b_), {'unit': unit, 'index': i})
                break
        for a in mine[:65536:4097]:
            part.state(a)
        part.nontriv(('headers', len(mine)))
        part.nontriv(('headers-child', len(other)))
        part.sample({'header_space': len(mine), 'example': repr(mine[0x2960])})
        return
    cls = unit['cls']
    k, K = unit.get('shard', (0, 1))
    hashes = []
    for i, case in enumerate(cases(cls, tier)):
        if i % K != k:
            continue
        res, viol = eval_case(cls, case)
        part.evaluations += 1
        part.transitions += 4
        part.traces += 1
        part.state(res[0] if isinstance(res[0], bytes) else repr(res))
        if any(v not in (b'', False, 0, None) for k, v in case.items() if k != 'stream_id'):
            part.nontriv((cls, i))
        hashes.append(h64(repr(res)))
        for rule, suffix, detail in viol:
            part.violate('C02.' + rule, 'C02.%s | %s | %s' % (rule, cls, suffix), '%s case %s' % (detail, _s(case)),
                         {'unit': unit, 'index': i, 'case': {k: (v.hex() if isinstance(v, bytes) and len(v) < 64 else repr(v)[:80]) for k, v in case.items()}})
        if i == 7 + k:
            part.sample({'class': cls, 'case': {k: (v.hex()[:40] if isinstance(v, bytes) else repr(v)) for k, v in case.items()}}, limit=1)
    other = child_table(cls, tier, k, K)
    if len(other) != len(hashes):
        part.violate('C02.backend-independence', 'C02.backend-independence | %s | table-size' % cls, 'tables differ in size', {'unit': unit})
    else:
        for i, (a, b_) in enumerate(zip(hashes, other)):
            if a != b_:
                part.violate('C02.backend-independence', 'C02.backend-independence | %s' % cls,
                             'case #%d encodes/decodes differently without cbitstruct' % (i * K + k), {'unit': unit, 'index': i * K + k})
                break
    part.outcome((cls, len(hashes)))


def replay(rec):
    w = rec['witness']
    unit = w['unit']
    if unit['kind'] != 'class' or 'index' not in w:
        from mc.runner import Partial
        p = Partial()
        run_unit(unit, p)
        return rec['signature'] in p.violations
    case = list(cases(unit['cls'], unit['tier']))[w['index']]
    res, viol = eval_case(unit['cls'], case)
    for v in viol:
        print(v)
    return any('C02.%s | %s | %s' % (r, unit['cls'], s) == rec['signature'] for r, s, _ in viol) or rec['rule'] == 'C02.backend-independence'
