"""C03 Fragmentation / reassembly: complete product over a window of data x metadata lengths, per frame class, framing
mode and fragment size, on the real get_next_fragment loop + real serialize + real FrameFragmentCache."""
from mc import refwire as R

RULE = ('PROD: 5 fragmentable classes x framing {prefixed, not} x fragment sizes x the complete square of data and '
        'metadata lengths 0..W (W = 2*(fs-6)+3, i.e. >=2 fragments of each) plus large sizes; case = one frame value; '
        'non-trivial = case producing >=2 fragments; states = distinct (reassembly-cache data length, metadata length) '
        'profiles seen after an append; transitions = fragments appended to the real cache')
EXPLANATION = 'exhaustive enumeration of the stated length window; each case runs the real fragmenter, codec and cache'
ASSUMPTIONS = ['payload bytes are position-tagged (i*7+3 mod 251) so truncation, duplication and reordering are visible',
               'fragments are re-parsed from their serialised bytes before reassembly, as a receiver would']
BUDGET_S = {'quick': 200, 'thorough': 2400}

CLASSES = ('PayloadFrame', 'RequestResponseFrame', 'RequestStreamFrame', 'RequestChannelFrame', 'RequestFireAndForgetFrame')
TYPE_OF = {'PayloadFrame': R.PAYLOAD, 'RequestResponseFrame': R.REQUEST_RESPONSE, 'RequestStreamFrame': R.REQUEST_STREAM,
           'RequestChannelFrame': R.REQUEST_CHANNEL, 'RequestFireAndForgetFrame': R.REQUEST_FNF}


def fs_list(tier):
    if tier == 'quick':
        return [64, 65, 73]
    return list(range(64, 131))


def bounds(tier):
    return {'fragment_sizes_full_square': fs_list(tier), 'fragment_sizes_boundary_window': [255, 1000, 65535] if tier == 'thorough' else [255],
            'large_lengths': [10000, 70000], 'classes': list(CLASSES)}


def make_units(tier):
    units = []
    for cls in CLASSES:
        for framing in (True, False):
            for fs in fs_list(tier):
                units.append({'cls': cls, 'framing': framing, 'fs': fs, 'mode': 'square'})
            for fs in ([255, 1000, 65535] if tier == 'thorough' else [255]):
                units.append({'cls': cls, 'framing': framing, 'fs': fs, 'mode': 'window'})
            units.append({'cls': cls, 'framing': framing, 'fs': 64, 'mode': 'large'})
            if tier == 'thorough':
                units.append({'cls': cls, 'framing': framing, 'fs': 1000, 'mode': 'large'})
    for fs in (64, 97) if tier == 'quick' else (64, 65, 97, 255):
        units.append({'cls': 'sender', 'framing': None, 'fs': fs, 'mode': 'sender'})
    return units


_PAT = bytes((i * 7 + 3) % 251 for i in range(140000))
_PATM = bytes((i * 11 + 5) % 241 for i in range(140000))


def variants(cls):
    """(complete, next, request_n) combinations of the base frame."""
    if cls == 'PayloadFrame':
        return [(False, True, None), (True, True, None)]
    if cls == 'RequestStreamFrame':
        return [(False, None, 1), (False, None, 0x7FFFFFFF)]
    if cls == 'RequestChannelFrame':
        return [(False, None, 1), (True, None, 0x7FFFFFFF)]
    return [(False, None, None)]


def build(cls, d, m, fs, complete, nxt, n):
    import rsocket.frame as F
    f = getattr(F, cls)()
    f.stream_id = 5
    f.data = _PAT[:d]
    f.metadata = _PATM[:m]
    f.fragment_size_bytes = fs
    if complete:
        f.flags_complete = True
    if nxt is not None:
        f.flags_next = nxt
    if n is not None:
        f.initial_request_n = n
    return f


def check_case(unit, d, m, var, part):
    from rsocket.frame import parse_or_ignore
    from rsocket.frame_fragment_cache import FrameFragmentCache
    cls, framing, fs = unit['cls'], unit['framing'], unit['fs']
    complete, nxt, n = var
    part.evaluations += 1
    shape = ('d0' if d == 0 else 'd+') + ('m0' if m == 0 else 'm+')
    tag = '%s | framing=%s | %s' % (cls, 'prefixed' if framing else 'message', shape)
    wit = {'unit': unit, 'd': d, 'm': m, 'variant': list(var)}

    def bad(rule, detail):
        part.violate('C03.' + rule, 'C03.%s | %s' % (rule, tag), '%s (fs=%d data=%d metadata=%d)' % (detail, fs, d, m), wit)

    base = build(cls, d, m, fs, complete, nxt, n)
    whole = build(cls, d, m, None, complete, nxt, n)
    whole_len = len(whole.serialize()) + (3 if framing else 0)
    frags = []
    limit = (d + m) + 8
    try:
        while True:
            f = base.get_next_fragment(framing)
            if f is None:
                bad('fragmenter-terminates', 'fragment generator ended without a final (non-follows) fragment after %d fragments' % len(frags))
                return
            frags.append(f)
            if not f.flags_follows:
                break
            if len(frags) > limit:
                bad('fragmenter-terminates', 'more than %d fragments' % limit)
                return
        extra = base.get_next_fragment(framing)
        if extra is not None:
            bad('fragmenter-terminates', 'a fragment follows the final one')
            return
    except Exception as e:
        bad('fragmenter-exception', 'exception %s: %s' % (type(e).__name__, e))
        return
    raws = [f.serialize() for f in frags]
    refs = [R.decode(r) for r in raws]
    if len(frags) >= 2:
        part.nontriv((cls, framing, fs, d, m))
    # 1. size limit (every fragment is judged; the signature names the kind of fragment and the overshoot)
    seen_over = set()
    for i, r in enumerate(raws):
        over = len(r) + (3 if framing else 0) - fs
        if over > 0:
            kind = 'fragment-with-metadata' if (refs[i].flags & R.F_METADATA) else 'fragment-without-metadata'
            if (kind, over) not in seen_over:
                seen_over.add((kind, over))
                part.violate('C03.size-limit', 'C03.size-limit | %s | %s' % (kind, 'over<=3' if over <= 3 else 'over=%d' % over),
                             'fragment %d of %d is %d bytes on the wire > %d (%s fs=%d data=%d metadata=%d)' % (
                                 i, len(raws), len(r) + (3 if framing else 0), fs, tag, fs, d, m), wit)
    # 6. a frame that fits is a single frame
    if whole_len <= fs and len(frags) != 1:
        bad('fits-single', 'frame of %d wire bytes fits in %d but was sent as %d fragments' % (whole_len, fs, len(frags)))
    # 2. types and request-n
    if refs[0].type != TYPE_OF[cls]:
        bad('first-type', 'first fragment has type %s' % refs[0].name)
    if n is not None and refs[0].request_n != n:
        bad('first-request-n', 'first fragment request-n %r != %r' % (refs[0].request_n, n))
    for i, rf in enumerate(refs[1:], 1):
        if rf.type != R.PAYLOAD:
            bad('rest-payload', 'fragment %d has type %s' % (i, rf.name))
            break
    for rf in refs:
        if rf.sid != 5 or rf.bad:
            bad('fragment-wellformed', 'fragment stream id %s bad=%s' % (rf.sid, rf.bad))
            break
    # 3. follows / complete
    for i, rf in enumerate(refs):
        last = i == len(refs) - 1
        if rf.follows == last:
            bad('follows-flag', 'fragment %d/%d follows=%s' % (i, len(refs), rf.follows))
            break
        if rf.type in (R.PAYLOAD, R.REQUEST_CHANNEL):
            if rf.complete and not last:
                bad('complete-only-last', 'fragment %d/%d carries complete' % (i, len(refs)))
                break
            if last and bool(rf.complete) != bool(complete):
                bad('complete-only-last', 'last fragment complete=%s, original %s' % (rf.complete, complete))
    # 4. metadata before data, concatenation exact
    md_seen, data_started = 0, False
    cat_d, cat_m = b'', b''
    for i, rf in enumerate(refs):
        fm, fd = rf.metadata or b'', rf.data or b''
        if fm and data_started:
            bad('metadata-before-data', 'fragment %d carries metadata after data started' % i)
            break
        if fd and md_seen + len(fm) < m:
            bad('metadata-before-data', 'fragment %d carries data before all metadata was emitted' % i)
            break
        md_seen += len(fm)
        data_started = data_started or bool(fd)
        cat_d += fd
        cat_m += fm
    if cat_d != _PAT[:d] or cat_m != _PATM[:m]:
        bad('content-exact', 'concatenated fragments differ from the original payload (data %d/%d, metadata %d/%d bytes)' % (
            len(cat_d), d, len(cat_m), m))
    # 5. reassembly on the real cache
    cache = FrameFragmentCache()
    result = None
    try:
        for i, r in enumerate(raws):
            pf = parse_or_ignore(r)
            result = cache.append(pf)
            part.transitions += 1
            cur = cache._frames_by_stream_id.get(5)
            part.state((len(cur.data or b'') if cur is not None else -1, len(cur.metadata or b'') if cur is not None else -1))
            if i < len(raws) - 1 and result is not None:
                bad('reassembly', 'cache returned a frame after fragment %d of %d' % (i + 1, len(raws)))
                return
    except Exception as e:
        bad('reassembly-exception', 'exception %s: %s' % (type(e).__name__, e))
        return
    if result is None:
        bad('reassembly', 'cache returned nothing after the last fragment')
        return
    if cache._frames_by_stream_id:
        bad('reassembly-cache-empty', 'cache retains %d entries after reassembly' % len(cache._frames_by_stream_id))
    import rsocket.frame as F
    if type(result) is not getattr(F, cls):
        bad('reassembly', 'reassembled frame is %s' % type(result).__name__)
    if result.stream_id != 5:
        bad('reassembly', 'reassembled stream id %s' % result.stream_id)
    if bytes(result.data or b'') != _PAT[:d] or bytes(result.metadata or b'') != _PATM[:m]:
        bad('reassembly-content', 'reassembled payload differs (data %d/%d, metadata %d/%d)' % (
            len(result.data or b''), d, len(result.metadata or b''), m))
    if n is not None and result.initial_request_n != n:
        bad('reassembly', 'reassembled request-n %r' % result.initial_request_n)
    if cls in ('PayloadFrame', 'RequestChannelFrame') and bool(result.flags_complete) != bool(complete):
        bad('reassembly', 'reassembled complete=%s original %s' % (result.flags_complete, complete))
    if cls == 'PayloadFrame' and (d or m) and not result.flags_next:
        bad('reassembly', 'reassembled payload with content lacks next')
    part.traces += 1


def lengths(unit):
    fs = unit['fs']
    if unit['mode'] == 'square':
        w = 2 * (fs - 6) + 3
        ls = list(range(0, w + 1))
        return [(d, m) for d in ls for m in ls]
    if unit['mode'] == 'window':
        b = fs - 6
        ls = sorted({0, 1, 2} | {k * b + dlt for k in (1, 2) for dlt in range(-12, 4) if k * b + dlt > 0})
        return [(d, m) for d in ls for m in ls]
    return [(d, m) for d in (10000, 70000) for m in (0, 1, 10000)] + [(0, 10000), (1, 70000), (0, 70000)]



def through_sender(flavour, fs, kind, d, m, part):
    """The same clauses observed where the property puts them - at the transport of a real endpoint: the sender asks the transport
    whether it has a length prefix and hands that to the fragmenter. A request of every fragmentable kind whose whole frame is
    around the limit: one frame if it fits, no fragment over the limit, the payload reassembles exactly."""
    from mc.app import P, RecSubscriber
    from mc.solo import Solo
    s = Solo('client', flavour, fragment_size_bytes=fs)
    try:
        data, md = _PAT[:d], (_PATM[:m] if m else None)
        if kind == 'rr':
            s.sock.request_response(P(data, md))
        elif kind == 'fnf':
            s.sock.fire_and_forget(P(data, md))
        elif kind == 'stream':
            s.sock.request_stream(P(data, md)).initial_request_n(3).subscribe(RecSubscriber(s.w, s.ep, 'sub'))
        else:
            s.sock.request_channel(P(data, md)).initial_request_n(3).subscribe(RecSubscriber(s.w, s.ep, 'sub'))
        s.settle()
        fr = s.sent_on(1)
        prefixed = s.conn.stream
        header = 6 + (4 if kind in ('stream', 'channel') else 0)
        whole = header + d + ((3 + m) if m else 0) + (3 if prefixed else 0)
        tag = 'through-sender | %s | framing=%s' % (kind, 'prefixed' if prefixed else 'message')
        wit = {'kind': 'through-sender', 'flavour': flavour, 'fs': fs, 'req': kind, 'd': d, 'm': m}
        part.evaluations += 1
        part.traces += 1
        part.transitions += len(fr)
        part.state(('sender', flavour, fs, kind, len(fr), whole <= fs))
        if len(fr) >= 2:
            part.nontriv(('sender', flavour, fs, kind, d, m))
        if not fr:
            part.violate('C03.fits-single', 'C03.fits-single | %s | nothing-sent' % tag, 'no frame on the wire (fs=%d data=%d metadata=%d)' % (fs, d, m), wit)
            return
        if whole <= fs and len(fr) != 1:
            part.violate('C03.fits-single', 'C03.fits-single | %s' % tag,
                         'frame of %d wire bytes fits in %d but the endpoint sent %s (data=%d metadata=%d)' % (whole, fs, [(f.name, len(f.raw)) for f in fr], d, m), wit)
        if not m:  # fragments carrying metadata: see the recorded finding (up to 3 bytes over), judged by the direct part
            for f in fr:
                if len(f.raw) + (3 if prefixed else 0) > fs:
                    part.violate('C03.size-limit', 'C03.size-limit | %s' % tag, 'a fragment of %d wire bytes with fragment size %d (data=%d)' % (len(f.raw) + (3 if prefixed else 0), fs, d), wit)
                    break
        got_d = b''.join(bytes(f.data or b'') for f in fr)
        got_m = b''.join(bytes(f.metadata or b'') for f in fr)
        if got_d != bytes(data) or got_m != bytes(md or b''):
            part.violate('C03.reassembly-exact', 'C03.reassembly-exact | %s' % tag, 'fragments carry %d data / %d metadata bytes, sent %d / %d' % (len(got_d), len(got_m), d, m), wit)
        if any(not f.follows for f in fr[:-1]) or fr[-1].follows:
            part.violate('C03.follows-flags', 'C03.follows-flags | %s' % tag, 'FOLLOWS flags %s' % [f.follows for f in fr], wit)
    finally:
        s.teardown()


def run_unit(unit, part):
    if unit.get('mode') == 'sender':
        fs = unit['fs']
        for kind in ('rr', 'fnf', 'stream', 'channel'):
            header = 6 + (4 if kind in ('stream', 'channel') else 0)
            for flavour in ('tcp', 'msg', 'quic', 'wsk'):
                lim = fs - header - (3 if flavour in ('tcp', 'quic') else 0)
                for d in list(range(lim - 5, lim + 5)) + [2 * lim, 2 * lim + 1]:
                    through_sender(flavour, fs, kind, d, 0, part)
                for m in (1, 7):
                    for d in range(lim - 3 - m - 4, lim - 3 - m + 2):
                        through_sender(flavour, fs, kind, d, m, part)
        part.sample({'mode': 'through-sender', 'fs': fs, 'links': ['tcp', 'msg', 'quic', 'wsk'], 'kinds': ['rr', 'fnf', 'stream', 'channel']}, limit=1)
        return
    vs = variants(unit['cls'])
    pairs = lengths(unit)
    for (d, m) in pairs:
        for var in (vs if (d + m) % 2 == 0 or unit['mode'] != 'square' else vs[:1]):
            check_case(unit, d, m, var, part)
    part.sample({'class': unit['cls'], 'framing': unit['framing'], 'fs': unit['fs'], 'mode': unit['mode'],
                 'cases': len(pairs), 'example': {'data': pairs[len(pairs) // 2][0], 'metadata': pairs[len(pairs) // 2][1]}}, limit=2)
    part.outcome(('ok', unit['cls']))
    if unit['cls'] == 'PayloadFrame' and unit['mode'] == 'square':
        # empty payload with complete and no next (the library's "complete" signal) must stay a single frame
        check_case(unit, 0, 0, (True, False, None), part)


def replay(rec):
    from mc.runner import Partial
    w = rec['witness']
    p = Partial()
    if w.get('kind') == 'through-sender':
        through_sender(w['flavour'], w['fs'], w['req'], w['d'], w['m'], p)
        for v in p.violations.values():
            print(v.rule, v.detail)
        return rec['signature'] in p.violations
    check_case(w['unit'], w['d'], w['m'], tuple(w['variant']), p)
    for v in p.violations.values():
        print(v.rule, v.detail)
    return rec['signature'] in p.violations
