"""C04 Chunking independence of the decoder: explicit-state search over ALL chunkings of each byte stream (state =
position, parser state, frames emitted), transport pass with small read buffers, message-mode pass."""
import asyncio
import itertools

from mc import refwire as R
from mc.runner import arm_watchdog, disarm_watchdog, Watchdog

RULE = ('GRAPH: frame sequences of length <= 3 (thorough 4) over an item alphabet of valid frames (6 types, one with metadata, '
        'one fragment pair) and malformed items (zero-length frame, shorter than a header, unknown type, truncated body, bad body '
        'with ignore flag, ERROR with unknown code); for the concatenated length-prefixed stream of L bytes the complete set of '
        '2^(L-1) chunkings is covered by a graph search with state (bytes consumed, canonical vars(parser), frames emitted) and '
        'transitions "feed the next k bytes" for every k; then the real TransportTCP.next_frame_generator with read buffer sizes '
        '{1,2,3,7,1024} x every split point, and message mode (receive_data(msg,0), real aiohttp transport objects); '
        'non-trivial = sequence containing >=2 items or a malformed item; distinct_outcomes = distinct decoded sequences')
EXPLANATION = 'explicit-state search to fixpoint per byte stream; a chunking-independent decoder yields exactly L+1 states, any dependence shows up as extra states and is checked against the reference deframer'
ASSUMPTIONS = ['"decodable" for one correctly delimited slice is decided by parse_or_ignore on exactly that slice in isolation']
BUDGET_S = {'quick': 240, 'thorough': 2400}


def items():
    I = {}
    I['rr'] = R.enc_request(R.REQUEST_RESPONSE, 1, b'hello')
    I['stream+md'] = R.enc_request(R.REQUEST_STREAM, 3, b'd', b'meta', n=7)
    I['payload'] = R.enc_payload(1, b'xyz', None, complete=True)
    I['cancel'] = R.enc_cancel(5)
    I['keepalive'] = R.enc_keepalive(True, b'k')
    I['error'] = R.enc_error(1, 0x201, b'boom')
    I['frag-pair'] = (R.enc_payload(7, b'part1', b'm', follows=True), R.enc_payload(7, b'part2', None, complete=True))
    # malformed / hostile but correctly delimited
    I['zero-length'] = b''
    I['short'] = b'\x00\x00\x01'
    I['unknown-type'] = b'\x00\x00\x00\x01' + bytes([0x3E << 2, 0]) + b'zz'
    I['truncated-body'] = R.enc_request_n(1, 5)[:8]
    I['bad-body-ignore'] = bytes(R.enc_error(1, 0x201)[:4]) + bytes([(R.ERROR << 2) | 0x02, 0]) + b'\x00'
    I['error-unknown-code'] = R.enc_error(1, 0x999, b'?')
    return I


VALID = ('rr', 'stream+md', 'payload', 'cancel', 'keepalive', 'error', 'frag-pair')


def bounds(tier):
    return {'items': sorted(items()), 'sequence_length': 3 if tier == 'quick' else 4, 'read_buffer_sizes': [1, 2, 3, 7, 1024]}


def flatten(seq):
    I = items()
    raws = []
    for name in seq:
        it = I[name]
        raws.extend(it if isinstance(it, tuple) else [it])
    return raws


def describe(frame):
    from rsocket.frame import InvalidFrame
    if isinstance(frame, InvalidFrame):
        return 'INVALID'
    try:
        return (type(frame).__name__, bytes(frame.serialize()))
    except Exception as e:
        return (type(frame).__name__, 'unserialisable:%s' % type(e).__name__)


def expected(raws):
    """Reference deframer: what each correctly delimited slice decodes to in isolation."""
    from rsocket.frame import parse_or_ignore
    out = []
    for r in raws:
        try:
            f = parse_or_ignore(r)
            if f is not None:
                out.append(describe(f))
        except Exception:
            pass
    return out


def drive(agen, budget):
    """Exhaust an async generator that never really suspends; returns list or raises."""
    out = []
    while True:
        try:
            agen.__anext__().send(None)
        except StopIteration as s:
            out.append(s.value)
            if len(out) > budget:
                raise OverflowError('yield budget exceeded')
        except StopAsyncIteration:
            return out


def parser_key(parser):
    return tuple(sorted((k, bytes(v) if isinstance(v, (bytes, bytearray)) else repr(v)) for k, v in vars(parser).items()))


def graph_search(seq, part):
    from rsocket.frame_parser import FrameParser
    raws = flatten(seq)
    stream = b''.join(R.prefixed(r) for r in raws)
    L = len(stream)
    exp = expected(raws)
    bounds_ = []
    pos = 0
    for r in raws:
        pos += 3 + len(r)
        bounds_.append(pos)
    budget = len(raws) + 1
    tag = '+'.join(seq)
    wit = {'mode': 'graph', 'seq': list(seq)}
    # state: (pos, parser key, emitted) -> representative path (list of chunk sizes)
    start = (0, parser_key(FrameParser()), ())
    seen = {start: []}
    frontier = [start]
    viol = False
    while frontier:
        st = frontier.pop()
        path = seen[st]
        for k in range(1, L - st[0] + 1):
            # re-create the state by replaying its representative path on a fresh parser
            p = FrameParser()
            emitted = []
            off = 0
            try:
                for c in path + [k]:
                    got = drive(p.receive_data(stream[off:off + c]), budget)
                    emitted.extend(describe(f) for f in got)
                    off += c
            except OverflowError:
                part.violate('C04.terminates', 'C04.terminates | prefixed | %s' % kind_of(seq), 'receive_data exceeded its yield budget; items %s path %s' % (tag, path + [k]), dict(wit, path=path + [k]))
                viol = True
                continue
            except Exception as e:
                part.violate('C04.decoder-exception', 'C04.decoder-exception | %s | %s' % (type(e).__name__, kind_of(seq)),
                             'receive_data raised %r; items %s path %s' % (e, tag, path + [k]), dict(wit, path=path + [k]))
                viol = True
                continue
            part.transitions += 1
            clean = tuple(d for d in emitted if d != 'INVALID')
            n_done = sum(1 for b_ in bounds_ if b_ <= off)
            # frames fully received so far, in order, none lost or duplicated
            want_prefix = tuple(expected(raws[:n_done]))
            if clean != want_prefix:
                part.violate('C04.same-frames-any-chunking', 'C04.same-frames-any-chunking | %s | %s' % (kind_of(seq), diff_kind(clean, want_prefix)),
                             'items %s, chunks %s: decoded %s, expected %s' % (tag, path + [k], short(clean), short(want_prefix)), dict(wit, path=path + [k]))
                viol = True
            n_inv = sum(1 for d in emitted if d == 'INVALID')
            if n_inv > n_done - len(want_prefix):
                part.violate('C04.at-most-one-marker', 'C04.at-most-one-marker | %s' % kind_of(seq),
                             'items %s, chunks %s: %d invalid-frame markers for %d undecodable items' % (tag, path + [k], n_inv, n_done - len(want_prefix)), dict(wit, path=path + [k]))
                viol = True
            key = (off, parser_key(p), tuple(emitted))
            if key not in seen:
                seen[key] = path + [k]
                frontier.append(key)
                part.state(('g', tag, key[0], key[1], len(key[2])))
    part.evaluations += 1
    part.traces += len(seen)
    part.extra['graph_states_total'] = part.extra.get('graph_states_total', 0) + len(seen)
    part.extra['graph_states_if_independent'] = part.extra.get('graph_states_if_independent', 0) + L + 1
    part.outcome(tuple(exp))
    if len(seq) >= 2 or any(s not in VALID for s in seq):
        part.nontriv(tuple(seq))
    return viol


def kind_of(seq):
    bad = sorted({s for s in seq if s not in VALID})
    return ('with-' + ','.join(bad)) if bad else 'valid-only'


def diff_kind(got, want):
    if len(got) < len(want):
        return 'lost'
    if len(got) > len(want):
        return 'duplicated-or-extra'
    return 'different'


def short(x):
    return [d if isinstance(d, str) else d[0] for d in x]


class _NullWriter:
    def write(self, data):
        pass

    async def drain(self):
        pass

    def close(self):
        pass

    async def wait_closed(self):
        pass


def transport_pass(seq, part):
    """Real TransportTCP.next_frame_generator fed through a StreamReader: read buffer sizes x every split point."""
    from mc.vloop import VLoop
    from rsocket.transports.tcp import TransportTCP
    raws = flatten(seq)
    stream = b''.join(R.prefixed(r) for r in raws)
    exp = expected(raws)
    tag = '+'.join(seq)
    for rbs in (1, 2, 3, 7, 1024):
        splits = range(0, len(stream) + 1) if rbs in (3, 1024) else (0, 1, len(stream) // 2)
        for split in splits:
            loop = VLoop()
            loop.install()
            try:
                reader = asyncio.StreamReader(limit=1 << 26, loop=loop)
                t = TransportTCP(reader, _NullWriter(), read_buffer_size=rbs)
                out = []

                async def collect():
                    while True:
                        gen = await t.next_frame_generator()
                        if gen is None:
                            return
                        n = 0
                        async for f in gen:
                            out.append(describe(f))
                            n += 1
                            if n > len(raws) + 1:
                                raise OverflowError('yield budget')

                task = loop.create_task(collect())
                loop.quiesce()
                if split:
                    reader.feed_data(stream[:split])
                    loop.quiesce()
                if split < len(stream):
                    reader.feed_data(stream[split:])
                    loop.quiesce()
                reader.feed_eof()
                loop.quiesce()
                part.evaluations += 1
                part.transitions += 1
                part.traces += 1
                wit = {'mode': 'transport', 'seq': list(seq), 'rbs': rbs, 'split': split}
                if not task.done():
                    part.violate('C04.terminates', 'C04.terminates | transport | %s' % kind_of(seq), 'collector never finished; items %s' % tag, wit)
                elif task.exception() is not None:
                    part.violate('C04.decoder-exception', 'C04.decoder-exception | transport | %s | %s' % (type(task.exception()).__name__, kind_of(seq)),
                                 'items %s rbs %d split %d: %r' % (tag, rbs, split, task.exception()), wit)
                else:
                    clean = [d for d in out if d != 'INVALID']
                    if clean != exp:
                        part.violate('C04.same-frames-any-chunking', 'C04.same-frames-any-chunking | transport | %s | %s' % (kind_of(seq), diff_kind(clean, exp)),
                                     'items %s read_buffer_size %d split %d: decoded %s expected %s' % (tag, rbs, split, short(clean), short(exp)), wit)
            finally:
                loop.teardown()


def message_pass(seq, part, flavour_transport=True):
    """Message framing: each message yields exactly the frame it contains (shared parser across messages)."""
    from rsocket.frame_parser import FrameParser
    raws = flatten(seq)
    exp = expected(raws)
    tag = '+'.join(seq)
    wit = {'mode': 'message', 'seq': list(seq)}
    p = FrameParser()
    out = []
    r = b'?'
    try:
        arm_watchdog(10)
        for r in raws:
            got = drive(p.receive_data(r, 0), 2)
            one = [describe(f) for f in got if describe(f) != 'INVALID']
            if one != expected([r]):
                part.violate('C04.message-yields-its-frame', 'C04.message-yields-its-frame | %s | %s' % (kind_of(seq), 'empty' if not r else 'nonempty'),
                             'message %r (items %s) decoded to %s, expected %s' % (r[:16], tag, short(one), short(expected([r]))), wit)
            out.extend(one)
        part.evaluations += 1
        part.traces += 1
        part.transitions += len(raws)
    except OverflowError:
        part.violate('C04.terminates', 'C04.terminates | message | %s' % ('empty-message' if not r else 'message-of-%d-bytes' % len(r)), 'receive_data(msg, 0) exceeded its yield budget on message %r; items %s' % (r[:16], tag), wit)
    except Watchdog:
        part.violate('C04.terminates', 'C04.terminates | message | %s' % ('empty-message' if not r else 'message-of-%d-bytes' % len(r)), 'receive_data(msg, 0) did not terminate on message %r; items %s' % (r[:16], tag), wit)
    except Exception as e:
        part.violate('C04.decoder-exception', 'C04.decoder-exception | message | %s | %s' % (type(e).__name__, kind_of(seq)),
                     'receive_data(msg, 0) raised %r on message %r; items %s' % (e, r[:16], tag), wit)
    finally:
        disarm_watchdog()
    if not flavour_transport:
        return
    # through the real message transport objects (pump + queue + next_frame_generator), every transport class
    for role, flavour in MESSAGE_ENDS:
        through_transport(seq, part, role, flavour, [raws])
    # the QUIC transport is a byte stream with the 3-byte prefix: every 2-chunk split, 1-byte and 3-byte reads
    stream = b''.join(R.prefixed(r) for r in raws)
    plans = [[stream[:k], stream[k:]] for k in range(0, len(stream))]
    plans.append([stream[i:i + 1] for i in range(len(stream))])
    plans.append([stream[i:i + 3] for i in range(0, len(stream), 3)])
    through_transport(seq, part, 'server', 'quic', plans)
    through_transport(seq, part, 'client', 'quic', plans[len(plans) // 2:len(plans) // 2 + 1] + plans[-2:])


# (role of the endpoint under test, link flavour): every message transport class of the repository
MESSAGE_ENDS = (('server', 'msg'), ('client', 'msg'), ('server', 'wsk'), ('server', 'quart'), ('server', 'h3'),
                ('server', 'chan'), ('client', 'chan'))
TRANSPORT_NAMES = {('server', 'msg'): 'TransportAioHttpWebsocket', ('client', 'msg'): 'TransportAioHttpClient',
                   ('server', 'wsk'): 'WebsocketsTransport', ('server', 'quart'): 'TransportQuartWebsocket',
                   ('server', 'h3'): 'Http3TransportWebsocket', ('server', 'chan'): 'ChannelsTransport',
                   ('client', 'chan'): 'TransportAsyncWebsocketsClient', ('server', 'quic'): 'RSocketQuicTransport',
                   ('client', 'quic'): 'RSocketQuicTransport'}


def through_transport(seq, part, role, flavour, plans):
    """Feed the items through the real transport object of one endpoint; each plan is a list of messages / chunks."""
    from mc.solo import Solo
    raws = flatten(seq)
    exp = expected(raws)
    tag = '+'.join(seq)
    name = TRANSPORT_NAMES[(role, flavour)]
    label = 'aiohttp-transport' if (role, flavour) == ('server', 'msg') else name
    wit = {'mode': 'message', 'seq': list(seq)}
    for plan in plans:
        got = []
        s = None
        try:
            arm_watchdog(10)
            s = Solo(role, flavour, setup=False)
            t = s.conn.st if role == 'server' else s.conn.ct
            cap = len(raws) + 2
            q = t._incoming_frame_queue
            orig_put = q.put_nowait
            count = [0]

            def capped(item, orig_put=orig_put, count=count, got=got):
                count[0] += 1
                if count[0] > cap:
                    raise Watchdog('incoming queue put cap exceeded')
                got.append(describe(item))
                return orig_put(item)

            async def aput(item):
                capped(item)

            q.put_nowait = capped
            q.put = aput  # WebsocketsTransport awaits put(); the queue is unbounded so this is the same operation
            for piece in plan:
                s.peer_bytes(piece)
            clean = [d for d in got if d != 'INVALID']
            if clean != exp:
                part.violate('C04.message-yields-its-frame' if flavour != 'quic' else 'C04.same-frames-any-chunking',
                             '%s | %s | %s' % ('C04.message-yields-its-frame' if flavour != 'quic' else 'C04.same-frames-any-chunking', label, kind_of(seq)),
                             'items %s through %s (%s end), pieces %s: %s expected %s' % (tag, name, role, [len(x) for x in plan][:12], short(clean), short(exp)), wit)
            part.evaluations += 1
            part.traces += 1
            part.transitions += len(plan)
        except Watchdog:
            part.violate('C04.terminates', 'C04.terminates | message-transport | %s' % kind_of(seq) if label == 'aiohttp-transport' else 'C04.terminates | %s | %s' % (label, kind_of(seq)),
                         'pump of %s did not terminate; items %s' % (name, tag), wit)
        finally:
            disarm_watchdog()
            if s is not None:
                s.teardown()


def make_units(tier):
    names = sorted(items())
    units = []
    n = 3 if tier == 'quick' else 4
    for first in names:
        units.append({'first': first, 'n': n, 'tier': tier})
    return units


def sequences(unit):
    names = sorted(items())
    first, n = unit['first'], unit['n']
    yield (first,)
    for ln in range(1, n):
        for tail in itertools.product(names, repeat=ln):
            if unit['tier'] == 'quick' and ln == 2:
                # length 3 in quick: at least one malformed item or the fragment pair somewhere
                s = (first,) + tail
                if all(x in VALID and x != 'frag-pair' for x in s):
                    continue
            if ln == 3:
                s = (first,) + tail
                if sum(1 for x in s if x not in VALID) != 1:
                    continue
            yield (first,) + tail


def run_unit(unit, part):
    for seq in sequences(unit):
        graph_search(seq, part)
        if len(seq) <= 2:
            transport_pass(seq, part)
            message_pass(seq, part)
        else:
            message_pass(seq, part, flavour_transport=False)
    part.sample({'first_item': unit['first'], 'max_items': unit['n']}, limit=2)


def replay(rec):
    from mc.runner import Partial
    w = rec['witness']
    p = Partial()
    seq = tuple(w['seq'])
    if w['mode'] == 'graph':
        graph_search(seq, p)
    elif w['mode'] == 'transport':
        transport_pass(seq, p)
    else:
        message_pass(seq, p)
    for v in p.violations.values():
        print(v.rule, '|', v.detail[:300])
    return rec['signature'] in p.violations
