"""C05 Per-stream wire order and fragment contiguity: all interleavings of enqueue operations with the sender's
progress (the transport write completes only when the explorer says so) on one real endpoint."""
import itertools

from mc import refwire as R
from mc.app import P
from mc.runner import arm_watchdog, disarm_watchdog
from mc.solo import Solo

RULE = ('SEQ: one real RSocketServer whose transport drain completes only on an explicit tx event; enqueue operations on '
        'streams {2,4} x kinds {small payload, 3-fragment payload, 2-fragment payload+complete, complete, error, cancel, '
        'request-n} through the endpoint\'s own send_payload/send_complete/send_error/'
        'send_frame and send_priority_frame (a KEEPALIVE inserted at any position), fs=64, both framings; ALL interleavings of <=3 (thorough 4) enqueues with the tx steps needed to drain; '
        'each emitted frame is attributed to its source by content; non-trivial = schedule in which an enqueue happens while '
        'a fragmented frame of the same stream is partially sent; states = distinct (queue profile, blocked?) at choice points')
EXPLANATION = 'complete enumeration of interleavings (stateless DFS with replay); oracle = per-stream source order, fragment contiguity, reassembly on the real cache'
ASSUMPTIONS = ['frames carry a per-source byte value in every data/metadata byte so each fragment is attributable']
BUDGET_S = {'quick': 240, 'thorough': 3000}

KINDS_QUICK = ('S', 'F3', 'E', 'X')
KINDS_FULL = ('S', 'F3', 'F2C', 'C', 'E', 'X', 'N')
RX_KINDS = ('RXX', 'RXN', 'RXE')


def bounds(tier):
    return {'enqueues': 3 if tier == 'quick' else 4, 'kinds_3': list(KINDS_FULL),
            'kinds_4': list(KINDS_QUICK) if tier == 'thorough' else None, 'streams': [2, 4], 'fragment_size': 64,
            'framings': ['tcp', 'msg'] if tier == 'quick' else ['tcp', 'msg', 'quic', 'h3']}


def make_units(tier):
    units = []
    for flavour in ('tcp', 'msg') if tier == 'quick' else ('tcp', 'msg', 'quic', 'h3'):
        kinds = KINDS_FULL
        alpha = [(k, s) for s in (2, 4) for k in kinds] + [('PRIO', 0)]  # PRIO = send_priority_frame(KEEPALIVE)
        for first in alpha:
            for second in alpha:
                units.append({'flavour': flavour, 'prefix': [list(first), list(second)], 'n': 3, 'kinds': list(kinds), 'prio': True})
        # receptions on the same streams (peer CANCEL / REQUEST_N / ERROR handled while frames are queued or half sent)
        for first in [(k, sid) for sid in (2, 4) for k in RX_KINDS]:
            units.append({'flavour': flavour, 'prefix': [list(first)], 'n': 3 if tier == 'quick' else 4, 'kinds': ['S', 'F3', 'N'], 'prio': False, 'rx': True})
        if tier == 'thorough' and flavour in ('tcp', 'msg'):
            alpha4 = [(k, s) for s in (2, 4) for k in KINDS_QUICK]
            for a, b_ in itertools.product(alpha4, alpha4):
                units.append({'flavour': flavour, 'prefix': [list(a), list(b_)], 'n': 4, 'kinds': list(KINDS_QUICK), 'prio': False})
    return units


def tagbyte(i):
    return bytes([0x41 + i])


def enqueue(sock, i, kind, sid):
    from rsocket.frame_builders import to_cancel_frame, to_request_n_frame
    t = tagbyte(i)
    if kind == 'S':
        sock.send_payload(sid, P(t * 5, t * 2))
    elif kind == 'F3':
        sock.send_payload(sid, P(t * 100, t * 30))
    elif kind == 'F2C':
        sock.send_payload(sid, P(t * 80, None), complete=True)
    elif kind == 'C':
        sock.send_complete(sid)
    elif kind == 'E':
        sock.send_error(sid, RuntimeError(t.decode() * 3))
    elif kind == 'X':
        sock.send_frame(to_cancel_frame(sid))
    elif kind == 'N':
        sock.send_frame(to_request_n_frame(sid, 10 + i))
    elif kind == 'PRIO':
        from rsocket.frame_builders import to_keepalive_frame
        sock.send_priority_frame(to_keepalive_frame(t * 3))


def expected_content(i, kind):
    t = tagbyte(i)
    return {'S': (t * 5, t * 2), 'F3': (t * 100, t * 30), 'F2C': (t * 80, b'')}.get(kind)


def has_rx(ops):
    return any(k.startswith('RX') for k, _ in ops)


def run_schedule(flavour, ops, sched):
    """sched: list of 'e' (enqueue next op) / 't' (let the blocked write finish). Returns (solo, enabled-after)."""
    s = Solo('server', flavour, fragment_size_bytes=64)
    if has_rx(ops):
        # streams 2 and 4 are real channels opened by this endpoint, so that what the peer sends on them runs the handlers
        from mc.app import RecPublisher, RecSubscriber
        for sid in (2, 4):
            s.sock.request_channel(P(b'q'), RecPublisher(s.w, s.ep, 'pub%d' % sid)).initial_request_n(5).subscribe(RecSubscriber(s.w, s.ep, 'sub%d' % sid))
        s.settle()
    s.out.always_block = True
    s.mark = len(s.w.log)
    nxt = 0
    for c in sched:
        if c == 'e':
            i, (kind, sid) = nxt, ops[nxt]
            if kind.startswith('RX'):
                s.peer({'RXX': R.enc_cancel(sid), 'RXN': R.enc_request_n(sid, 3), 'RXE': R.enc_error(sid, 0x201, b'peer')}[kind])
            else:
                enqueue(s.sock, i, kind, sid)
            nxt += 1
        else:
            s.out.block.set_result(None)
        s.w.run_q()
    opts = []
    if nxt < len(ops):
        opts.append('e')
    if s.out.block is not None and not s.out.block.done():
        opts.append('t')
    return s, opts


def attribute(frames, ops):
    """Map every emitted frame to the index of the operation it came from (by content / kind order)."""
    out = []
    counters = {}
    for f in frames:
        src = None
        content = (f.data or b'') + (f.metadata or b'')
        if f.type == R.PAYLOAD and content:
            src = content[0] - 0x41
        elif f.type == R.ERROR:
            src = (f.data or b'?')[0] - 0x41
        elif f.type == R.KEEPALIVE:
            src = (f.data or b'?')[0] - 0x41
        else:
            kind = {R.CANCEL: 'X', R.REQUEST_N: 'N', R.PAYLOAD: 'C'}.get(f.type)
            if f.type == R.REQUEST_N:
                src = f.request_n - 10
            else:
                cands = [i for i, (k, sid) in enumerate(ops) if k == kind and sid == f.sid]
                n = counters.get((kind, f.sid), 0)
                counters[(kind, f.sid)] = n + 1
                src = cands[n] if n < len(cands) else None
        out.append(src)
    return out


def check(flavour, ops, s, sched):
    from rsocket.frame import parse_or_ignore
    from rsocket.frame_fragment_cache import FrameFragmentCache
    out = []
    frames = [f for f in s.sent(s.mark)]
    srcs = attribute(frames, ops)
    tag = flavour
    rx = has_rx(ops)

    def bad(rule, ctx, detail):
        out.append(('C05.' + rule, 'C05.%s | %s' % (rule, ctx), '%s; ops=%s wire=%s' % (detail, ops, [(repr(f), sr) for f, sr in zip(frames, srcs)])))

    for sid in (2, 4):
        mine = [(f, sr) for f, sr in zip(frames, srcs) if f.sid == sid]
        want = [i for i, (k, s_) in enumerate(ops) if s_ == sid and k != 'PRIO' and not k.startswith('RX')]
        first_seen = []
        for f, sr in mine:
            if sr not in first_seen:
                first_seen.append(sr)
        if rx:
            # the peer cancelled / failed the stream at some point: frames not yet started may legitimately be dropped; what
            # does reach the wire keeps its order, and a frame whose first fragment went out is completed
            if first_seen != [i for i in want if i in first_seen]:
                bad('per-stream-order', '+'.join(ops[i][0] for i in want) + ' | with-receptions', 'stream %d: sources reached the wire in order %s, enqueued %s' % (sid, first_seen, want))
        elif first_seen != want:
            kinds = '+'.join(ops[i][0] for i in want)
            bad('per-stream-order', '%s' % kinds, 'stream %d: sources reached the wire in order %s, enqueued %s' % (sid, first_seen, want))
        # contiguity
        open_src = None
        for f, sr in mine:
            if open_src is not None and sr != open_src:
                bad('fragment-contiguity', '%s-inside-%s' % (f.name, ops[open_src][0] if open_src is not None and 0 <= open_src < len(ops) else '?'),
                    'stream %d: %r sent between fragments of source %s' % (sid, f, open_src))
                break
            open_src = sr if (f.type in (R.PAYLOAD,) and f.follows) else None
        if open_src is not None:
            bad('drained', 'fragment-tail-missing', 'stream %d: fragmented source %s never finished' % (sid, open_src))
        # consequence: reassembly by the real cache
        cache = FrameFragmentCache()
        got = []
        try:
            for f, sr in mine:
                pf = parse_or_ignore(f.raw)
                if f.type == R.PAYLOAD:
                    r = cache.append(pf)
                    if r is not None and (r.data or r.metadata):
                        got.append((bytes(r.data or b''), bytes(r.metadata or b''), bool(r.flags_complete)))
        except Exception as e:
            bad('receiver-reassembly', 'exception-%s' % type(e).__name__, 'reassembly raised %r' % e)
        exp = [expected_content(i, ops[i][0]) + (ops[i][0] == 'F2C',) for i in want if expected_content(i, ops[i][0])]
        if rx:
            it = iter(exp)
            if not all(any(g == e for e in it) for g in got):
                bad('receiver-reassembly', 'payloads-differ | with-receptions', 'stream %d: receiver reassembled %s, enqueued %s' % (
                    sid, [(len(a), len(b_), c) for a, b_, c in got], [(len(a), len(b_), c) for a, b_, c in exp]))
        elif got != exp:
            bad('receiver-reassembly', 'payloads-differ', 'stream %d: receiver reassembled %s, enqueued %s' % (
                sid, [(len(a), len(b_), c) for a, b_, c in got], [(len(a), len(b_), c) for a, b_, c in exp]))
    if not rx and len(frames) < len(ops):
        bad('drained', 'frames-missing', 'only %d frames for %d operations' % (len(frames), len(ops)))
    return out


def explore(flavour, ops, part):
    def rec(sched, enq_during_partial):
        s, opts = run_schedule(flavour, ops, sched)
        try:
            part.transitions += 1
            q = s.sock._send_queue
            part.state((flavour, tuple(ops), len(getattr(q, '_queue', ())), tuple(opts), len(s.sent(s.mark))))
            if not opts:
                part.evaluations += 1
                part.traces += 1
                if enq_during_partial:
                    part.nontriv((flavour, tuple(ops), ''.join(sched)))
                v = check(flavour, ops, s, sched)
                part.outcome(tuple((f.type, f.sid) for f in s.sent(s.mark)))
                for rule, sig, detail in v:
                    part.violate(rule, sig, detail, {'flavour': flavour, 'ops': [list(o) for o in ops], 'sched': ''.join(sched)})
                return
            partial = False
            if 'e' in opts:
                frames = s.sent(s.mark)
                nxt_sid = ops[sched.count('e')][1]
                last = [f for f in frames if f.sid == nxt_sid]
                partial = bool(last) and last[-1].type == R.PAYLOAD and last[-1].follows
        finally:
            s.teardown()
        for o in opts:
            rec(sched + [o], enq_during_partial or (o == 'e' and partial))

    try:
        arm_watchdog(120)
        rec([], False)
    finally:
        disarm_watchdog()


def run_unit(unit, part):
    kinds = unit['kinds']
    alpha = [(k, s) for s in (2, 4) for k in kinds] + ([('PRIO', 0)] if unit.get('prio') else [])
    pre = [tuple(x) for x in unit['prefix']]
    rest = unit['n'] - len(pre)
    if unit.get('rx'):
        # the unit's reception at every position among the enqueues
        for tail in itertools.product(alpha, repeat=rest):
            if not any(k == 'F3' for k, _ in tail):
                continue
            for pos in range(len(tail) + 1):
                explore(unit['flavour'], list(tail[:pos]) + pre + list(tail[pos:]), part)
        part.sample({'flavour': unit['flavour'], 'reception': unit['prefix'], 'enqueues': rest}, limit=1)
        return
    for tail in itertools.product(alpha, repeat=rest):
        ops = pre + list(tail)
        if not any(k in ('F3', 'F2C') for k, _ in ops):
            continue  # without a fragmented frame every schedule is trivially ordered; covered by the others
        explore(unit['flavour'], ops, part)
    part.sample({'flavour': unit['flavour'], 'ops_prefix': unit['prefix'], 'enqueues': unit['n']}, limit=2)


def replay(rec):
    w = rec['witness']
    ops = [tuple(o) for o in w['ops']]
    s, opts = run_schedule(w['flavour'], ops, list(w['sched']))
    v = check(w['flavour'], ops, s, list(w['sched']))
    print('ops:', ops, 'schedule:', w['sched'])
    for f in s.sent(s.mark):
        print('   ', f)
    s.teardown()
    for x in v:
        print('violation:', x[0], x[1])
    return bool(v)
