"""C06 Request-n flow control: real producing endpoint vs scripted peer; every placement (in loop iterations) of
every REQUEST_N frame relative to production progress; credit monitor at the producer's transport boundary."""
import asyncio
import itertools

from mc import refwire as R, monitors
from mc.app import P, RecSubscriber
from mc.runner import arm_watchdog, disarm_watchdog, Watchdog
from mc.solo import Solo
from mc.vloop import Livelock

MAXN = 0x7FFFFFFF
RULE = ('SEQ: producing endpoint real (sources: StreamFromGenerator, StreamFromAsyncGenerator, Rx3 and ReactiveX4 plain '
        'observables and back-pressure factories) in roles stream responder / channel responder / channel requester; '
        'element counts x initial request-n {1,2,2^31-1} x every REQUEST_N sequence up to the stated length over {1,2,2^31-1} '
        'x every placement of each REQUEST_N at loop-iteration offset 0..J after the previous credit frame or at quiescence; '
        'oracle: elements begun <= initial n + sum of REQUEST_N received so far (unbounded integers), all elements sent when '
        'credit suffices; plus transmission of application credit values; non-trivial = execution in which credit arrived '
        'while the producer was neither idle nor finished (offset > 0 and not quiescent); states = distinct (config, sent, credit) at '
        'credit arrival')
EXPLANATION = 'exhaustive enumeration of configurations x credit sequences x placements on the real publishers under the virtual loop'
ASSUMPTIONS = ['credit counted when the frame is fed to the endpoint (upper bound of what it can have processed)']
BUDGET_S = {'quick': 300, 'thorough': 3000}

SOURCES = ('gen', 'agen', 'rx4', 'rx4bp', 'rx3', 'rx3bp', 'gen-delay', 'agen-delay')
DELAY_OFFSETS = (('t', 0), ('t', 5), ('t', 10), ('t', 15), ('t', 30))  # virtual milliseconds after the previous credit frame
OFFSETS = {'quick': (0, 1, 2, 3, 4, 6, 9, 13, 'Q'), 'thorough': tuple(range(0, 16)) + (20, 30, 'Q')}


def bounds(tier):
    return {'sources': list(SOURCES), 'roles': ['stream-responder', 'channel-responder', 'channel-requester'],
            'counts': [0, 1, 2, 3, 5], 'initial_n': [1, 2, MAXN], 'request_n_values': [1, 2, MAXN],
            'request_n_sequence_length': 2 if tier == 'quick' else 3, 'offsets': [str(o) for o in OFFSETS[tier]], 'delay_sources': 'delay_between_messages=10ms, credit placed at virtual time offsets 0/5/10/15/30 ms'}


def elements(k):
    return [P(b'el%d' % i + b'\x00\xff', b'm%d' % i if i % 2 else None) for i in range(k)]


def make_source(kind, k):
    els = elements(k)
    from datetime import timedelta
    delay = timedelta(milliseconds=10) if kind.endswith('-delay') else timedelta(0)
    if kind in ('gen', 'gen-delay'):
        from rsocket.streams.stream_from_generator import StreamFromGenerator

        def gen():
            for i, e in enumerate(els):
                yield e, i == k - 1

        return StreamFromGenerator(gen, delay_between_messages=delay)
    if kind in ('agen', 'agen-delay'):
        from rsocket.streams.stream_from_async_generator import StreamFromAsyncGenerator

        async def agen():
            for i, e in enumerate(els):
                yield e, i == k - 1

        return StreamFromAsyncGenerator(agen, delay_between_messages=delay)
    if kind in ('rx4', 'rx4bp'):
        import reactivex
        from rsocket.reactivex.back_pressure_publisher import observable_to_publisher, from_observable_with_backpressure, observable_from_queue
        if kind == 'rx4':
            return observable_to_publisher(reactivex.from_iterable(els))
        q = asyncio.Queue()
        for e in els:
            q.put_nowait(e)
        q.put_nowait(None)
        return observable_to_publisher(from_observable_with_backpressure(lambda bp: observable_from_queue(q, bp)))
    if kind in ('rx3', 'rx3bp'):
        import rx
        from rsocket.rx_support.back_pressure_publisher import observable_to_publisher, from_observable_with_backpressure, observable_from_queue
        if kind == 'rx3':
            return observable_to_publisher(rx.from_iterable(els))
        q = asyncio.Queue()
        for e in els:
            q.put_nowait(e)
        q.put_nowait(None)
        return observable_to_publisher(from_observable_with_backpressure(lambda bp: observable_from_queue(q, bp)))
    raise ValueError(kind)


def run_case(role, flavour, src, k, n0, rns, placement, part=None):
    """Returns (violations, sent elements, credit total)."""
    s = None
    try:
        arm_watchdog(20)
        if role == 'stream-responder':
            s = Solo('server', flavour, beh={'request_stream': lambda h, p: make_source(src, k)})
            sid = 1
            s.peer(R.enc_request(R.REQUEST_STREAM, sid, b'q', n=n0), mode='0')
            ep = s.ep
        elif role == 'channel-responder':
            s = Solo('server', flavour, beh={'request_channel': lambda h, p: (make_source(src, k), RecSubscriber(h.w, h.ep, 'rsub'))})
            sid = 1
            s.peer(R.enc_request(R.REQUEST_CHANNEL, sid, b'q', n=n0, complete=True), mode='0')
            ep = s.ep
        else:
            s = Solo('client', flavour)
            sid = 1
            sub = RecSubscriber(s.w, s.ep, 'sub')
            s.sock.request_channel(P(b'q'), make_source(src, k)).initial_request_n(1).subscribe(sub)
            ep = s.ep
            # for a channel requester the first credit is itself a REQUEST_N from the peer
            rns = (n0,) + tuple(rns)
            placement = ('Q',) + tuple(placement)
        loop = s.w.loop
        nontriv = False
        for rn, off in zip(rns, placement):
            if off == 'Q':
                s.w.run_q()
            elif isinstance(off, tuple):
                s.w.run_q()
                if off[1]:
                    busy = loop.next_timer() is not None and loop.next_timer() <= loop.time() + off[1] / 1000.0 + 1e-9
                    s.advance(off[1] / 1000.0)
                    nontriv = nontriv or busy
            else:
                for _ in range(off):
                    if loop.has_ready():
                        loop.step()
                if off > 0 and loop.has_ready():
                    nontriv = True
            if part is not None:
                sent_now = sum(1 for f in s.sent_on(sid) if f.type == R.PAYLOAD and f.next)
                part.state((role, src, k, n0, sent_now, rn))
            s.peer(R.enc_request_n(sid, rn), mode='0')
        s.settle('Q')
        if src.endswith('-delay'):
            s.advance(0.2)
        v = list(monitors.credit(s.log, ep))
        total = sum(rns) + (n0 if role != 'channel-requester' else 0)
        frames = [f for f in s.sent_on(sid) if f.type == R.PAYLOAD]
        sent = [(bytes(f.data or b''), bytes(f.metadata or b'')) for f in frames if f.next and (f.data or f.metadata)]
        want = [(bytes(e.data or b''), bytes(e.metadata or b'')) for e in elements(k)]
        tag = '%s/%s' % (role, src)
        if total >= k:
            if sent != want:
                v.append(('C06.all-delivered-with-credit', 'C06.all-delivered-with-credit | %s | sent=%d/%d' % (tag, len(sent), k),
                          'credit %d >= %d elements but the wire carries %d elements' % (total, k, len(sent))))
        else:
            if sent != want[:total] and len(sent) <= total:
                v.append(('C06.delivers-up-to-credit', 'C06.delivers-up-to-credit | %s | sent=%d credit=%d' % (tag, len(sent), total),
                          'credit %d of %d elements: wire carries %d elements' % (total, k, len(sent))))
        for rule, sig, detail in list(v):
            pass
        v = [(r, sg if ' | ' + src in sg or tag in sg else sg + ' | ' + src, d) for r, sg, d in v]
        for msg, exc, txt in loop.read_exc_log():
            v.append(('C06.producer-exception', 'C06.producer-exception | %s | %s' % (tag, exc), '%s: %s' % (msg, txt)))
        return v, len(sent), total, nontriv
    except Livelock as e:
        return [('termination', 'termination | livelock | C06 %s/%s' % (role, src), str(e))], 0, 0, False
    except Watchdog as e:
        return [('termination', 'termination | watchdog | C06 %s/%s' % (role, src), str(e))], 0, 0, False
    finally:
        disarm_watchdog()
        if s is not None:
            s.teardown()


def _last_fragment_index(fr, i):
    """Index of the last fragment of the (possibly fragmented) request frame at index i: its continuations are PAYLOAD frames."""
    last = i
    if fr[i].follows:
        for j in range(i + 1, len(fr)):
            if fr[j].type == R.PAYLOAD:
                last = j
                if not fr[j].follows:
                    break
    return last


def transmission_case(flavour, kind, n, part, when='after', with_pub=False, fs=None):
    """Credit granted by an application reaches the peer with exactly that value: one request frame carrying the initial n,
    then one REQUEST_N(n) - whether request(n) is called after the request went out, in the same loop iteration as
    subscribe(), or from inside on_subscribe (the canonical Reactive Streams place)."""
    s = Solo('client', flavour, fragment_size_bytes=fs)
    try:
        sub = RecSubscriber(s.w, s.ep, 'sub', request_on_subscribe=(n if when == 'in-on_subscribe' else None))
        q = P(b'q' * 150, b'm' * 40) if fs else P(b'q')  # with a fragment size: a request of several fragments
        if kind == 'stream':
            s.sock.request_stream(q).initial_request_n(n).subscribe(sub)
        else:
            from mc.app import RecPublisher
            s.sock.request_channel(q, RecPublisher(s.w, s.ep, 'pub') if with_pub else None).initial_request_n(n).subscribe(sub)
        if when == 'after':
            s.settle('Q')
        if when != 'in-on_subscribe':
            sub.subscription.request(n)
        s.settle('Q')
        fr = s.sent_on(1)
        v = []
        ctx = kind + ('+publisher' if with_pub else '') + ('' if when == 'after' else ' | ' + when) + (' | fragmented-request' if fs else '')
        req = [f for f in fr if f.type in (R.REQUEST_STREAM, R.REQUEST_CHANNEL)]
        rn = [f for f in fr if f.type == R.REQUEST_N]
        if len(req) != 1 or req[0].request_n != n:
            v.append(('C06.credit-transmitted', 'C06.credit-transmitted | initial | %s' % ctx, 'initial_request_n(%d) sent as %s' % (n, req)))
        if len(rn) != 1 or rn[0].request_n != n:
            v.append(('C06.credit-transmitted', 'C06.credit-transmitted | request | %s' % ctx, 'request(%d) sent as %s' % (n, rn)))
        elif req and fs and fr.index(rn[0]) < _last_fragment_index(fr, fr.index(req[0])):
            v.append(('C06.credit-transmitted', 'C06.credit-transmitted | request-n-inside-the-request | %s' % ctx,
                      'request(%d) went out as REQUEST_N between the fragments of its own request (the peer does not know the stream yet and drops it): %s' % (n, [str(f) for f in fr])))
        elif req and fr.index(rn[0]) < fr.index(req[0]):
            v.append(('C06.credit-transmitted', 'C06.credit-transmitted | request-n-before-the-request | %s' % ctx,
                      'request(%d) went out as REQUEST_N before the stream existed for the peer (it drops it): %s' % (n, [str(f) for f in fr])))
        part.evaluations += 1
        part.traces += 1
        part.transitions += 2
        for rule, sig, detail in v:
            part.violate(rule, sig, detail, {'kind': 'tx', 'flavour': flavour, 'req': kind, 'n': n, 'when': when, 'with_pub': with_pub, 'fs': fs})
    finally:
        s.teardown()


def collector_case(flavour, kind, limit, k, ending, part):
    """AwaitableRSocket / CollectorSubscriber as the application: limit_rate is the credit it grants - initial request-n = limit,
    one REQUEST_N(limit) after every full window, outstanding demand never above limit; the awaited result is exactly the
    elements the peer sent (an error raises)."""
    from rsocket.awaitable.awaitable_rsocket import AwaitableRSocket
    s = Solo('client', flavour)
    try:
        ars = AwaitableRSocket(s.sock)
        coro = ars.request_stream(P(b'q'), limit_rate=limit) if kind == 'stream' else ars.request_channel(P(b'q'), limit_rate=limit)
        task = s.w.loop.create_task(coro)
        s.settle('Q')
        req = [f for f in s.sent() if f.type in (R.REQUEST_STREAM, R.REQUEST_CHANNEL)]
        v = []
        ctx = 'collector/%s | limit=%s' % (kind, 'max' if limit == MAXN else limit)
        if len(req) != 1 or req[0].request_n != limit:
            v.append(('C06.credit-transmitted', 'C06.credit-transmitted | initial | %s' % ctx, 'limit_rate %d: request frames %s' % (limit, [str(f) for f in req])))
        sid = req[0].sid if req else 1
        granted = limit
        sent = 0
        worst = 0
        for i in range(k):
            last = (i == k - 1)
            if granted - sent <= 0:
                break  # a legal peer does not send beyond the credit it holds
            s.peer(R.enc_payload(sid, b'e%d' % i, complete=(last and ending == 'flag')))
            sent += 1
            rns = [f.request_n for f in s.sent_on(sid) if f.type == R.REQUEST_N]
            granted = limit + sum(rns)
            worst = max(worst, granted - sent)
        if ending == 'error':
            s.peer(R.enc_error(sid, 0x201, b'boom'))
        elif ending == 'complete' or k == 0:
            s.peer(R.enc_payload(sid, b'', complete=True, next=False))
        s.settle('Q')
        rns = [f.request_n for f in s.sent_on(sid) if f.type == R.REQUEST_N]
        if any(n != limit for n in rns):
            v.append(('C06.credit-transmitted', 'C06.credit-transmitted | request | %s' % ctx, 'REQUEST_N values %s with limit_rate %d' % (rns, limit)))
        if limit < MAXN and worst > limit:
            v.append(('C06.credit-transmitted', 'C06.credit-transmitted | outstanding-demand | %s' % ctx, 'outstanding demand reached %d with limit_rate %d' % (worst, limit)))
        delivered_all = sent == k
        if not task.done():
            if delivered_all:
                v.append(('C06.all-delivered-with-credit', 'C06.all-delivered-with-credit | %s | awaitable-pending' % ctx, 'all %d elements and the terminal were sent, the awaitable is still pending' % k))
            else:
                v.append(('C06.all-delivered-with-credit', 'C06.all-delivered-with-credit | %s | stalled' % ctx,
                          'the collector stopped granting credit after %d of %d elements (REQUEST_N %s)' % (sent, k, rns)))
        elif delivered_all:
            if ending == 'error':
                if task.exception() is None:
                    v.append(('C06.all-delivered-with-credit', 'C06.all-delivered-with-credit | %s | error-lost' % ctx, 'the stream ended with ERROR, the awaitable returned %r' % (task.result(),)))
            elif task.exception() is not None:
                v.append(('C06.all-delivered-with-credit', 'C06.all-delivered-with-credit | %s | raised' % ctx, repr(task.exception())))
            else:
                got = [bytes(p.data or b'') for p in task.result()]
                want = [b'e%d' % i for i in range(k)]
                if got != want:
                    v.append(('C06.all-delivered-with-credit', 'C06.all-delivered-with-credit | %s | wrong-result' % ctx, 'awaited result %s, sent %s' % (got, want)))
        part.evaluations += 1
        part.traces += 1
        part.transitions += k + 1
        part.nontriv(('collector', kind, limit, k, ending))
        for rule, sig, detail in v:
            part.violate(rule, sig, detail, {'kind': 'collector', 'flavour': flavour, 'req': kind, 'limit': limit, 'k': k, 'ending': ending})
    finally:
        s.teardown()


def make_units(tier):
    units = []
    roles = ('stream-responder', 'channel-responder', 'channel-requester')
    for role in roles:
        for src in SOURCES:
            for k in (0, 1, 2, 3, 5):
                if tier == 'quick' and role != 'stream-responder' and k in (2,):
                    continue
                units.append({'role': role, 'src': src, 'k': k, 'flavour': 'tcp' if (k + len(src)) % 2 else 'msg', 'tier': tier})
    units.append({'role': 'tx', 'tier': tier})
    return units


def run_unit(unit, part):
    tier = unit['tier']
    if unit['role'] == 'tx':
        for flavour in ('tcp', 'msg'):
            for kind in ('stream', 'channel'):
                for n in (1, 2, 7, MAXN):
                    for when in ('after', 'same-iteration', 'in-on_subscribe'):
                        for with_pub in ((False, True) if kind == 'channel' else (False,)):
                            transmission_case(flavour, kind, n, part, when, with_pub)
                            if when != 'after':
                                transmission_case(flavour, kind, n, part, when, with_pub, fs=64)
                for limit in (1, 2, 3, MAXN):
                    for k in range(0, 7):
                        for ending in ('flag', 'complete', 'error'):
                            collector_case(flavour, kind, limit, k, ending, part)
        return
    L = 2 if tier == 'quick' else 3
    role, src, k, flavour = unit['role'], unit['src'], unit['k'], unit['flavour']
    offs = DELAY_OFFSETS if src.endswith('-delay') else OFFSETS[tier]
    for n0 in (1, 2, MAXN):
        for ln in range(0, L + 1):
            for rns in itertools.product((1, 2, MAXN), repeat=ln):
                if ln == 3 and tier == 'thorough':
                    places = itertools.product(offs[::3] + ('Q',), repeat=ln)
                else:
                    places = itertools.product(offs, repeat=ln)
                for placement in places:
                    v, nsent, total, nontriv = run_case(role, flavour, src, k, n0, rns, placement, part)
                    part.evaluations += 1
                    part.traces += 1
                    part.transitions += ln + 1
                    part.outcome((role, src, k, nsent, min(total, k)))
                    if nontriv:
                        part.nontriv((role, src, k, n0, rns, placement))
                    for rule, sig, detail in v:
                        part.violate(rule, sig, detail, {'kind': 'credit', 'role': role, 'src': src, 'k': k, 'flavour': flavour,
                                                         'n0': n0, 'rns': list(rns), 'placement': [p if not isinstance(p, tuple) else 't%d' % p[1] for p in map(lambda q: q if isinstance(q, tuple) else str(q), placement)]})
    part.sample({'role': role, 'source': src, 'elements': k, 'link': flavour}, limit=2)


def replay(rec):
    w = rec['witness']
    if w['kind'] == 'collector':
        from mc.runner import Partial
        p = Partial()
        collector_case(w['flavour'], w['req'], w['limit'], w['k'], w['ending'], p)
        for v in p.violations.values():
            print(v.rule, '|', v.detail)
        return bool(p.violations)
    if w['kind'] == 'tx':
        from mc.runner import Partial
        p = Partial()
        transmission_case(w['flavour'], w['req'], w['n'], p, w.get('when', 'after'), w.get('with_pub', False), w.get('fs'))
        return bool(p.violations)
    placement = tuple(p if p == 'Q' else (('t', int(p[1:])) if str(p).startswith('t') else int(p)) for p in w['placement'])
    v, nsent, total, _ = run_case(w['role'], w['flavour'], w['src'], w['k'], w['n0'], tuple(w['rns']), placement)
    print('case', w, '-> sent', nsent, 'credit', total)
    for x in v:
        print('violation:', x)
    return bool(v)
