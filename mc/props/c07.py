"""C07 At-most-once termination at the API: all sequences (bounded depth) of protocol-legal peer frames, local
application actions and connection events against one real endpoint; subscriber signal grammar + future exactly-once."""
from mc import refwire as R, monitors
from mc.app import RecSubscriber, RecPublisher, P, watch_future
from mc.runner import Watchdog, arm_watchdog, disarm_watchdog
from mc.solo import Solo
from mc.vloop import Livelock

RULE = ('SEQ: every sequence up to the stated depth over {legal peer frames: PAYLOAD(next), PAYLOAD(next|complete), '
        'PAYLOAD(complete), ERROR, REQUEST_N, CANCEL} + {local actions: request(n), cancel, emit, emit+complete, complete, '
        'error} + {connection events: EOF, read error, local close()}, filtered by a reference automaton of legal peer '
        'behaviour (credit, own termination) and legal publisher behaviour; roles: request-response requester, stream '
        'requester, channel requester, channel responder (both links); second pass: every sequence of length <= depth-1 '
        'with each adjacent pair executed in the same loop iteration; once the reference says the interaction is over the '
        'sequence is extended by one more event of every kind; non-trivial = sequence containing a terminal event followed '
        'by at least one more event; states = distinct (role, reference state, signal string) triples')
EXPLANATION = 'exhaustive enumeration of operation sequences; each is executed from a fresh real endpoint on the virtual loop'
ASSUMPTIONS = ['peer frames still in flight after a local cancel are legal peer behaviour',
               'the application publisher is Reactive-Streams legal (no emission beyond credit or after its terminal)']
BUDGET_S = {'quick': 240, 'thorough': 3000}

DEPTH = {'quick': {'rr': 5, 'stream': 5, 'chan_req': 5, 'chan_resp': 5}, 'thorough': {'rr': 7, 'stream': 7, 'chan_req': 6, 'chan_resp': 6}}


def bounds(tier):
    return {'depth': DEPTH[tier], 'roles': list(DEPTH[tier]), 'links': ['tcp', 'msg', 'quic'], 'library_sources': len(source_configs()), 'source_ops_depth': SRC_DEPTH[tier]}


# peer elements that arrive as two fragments (F + tail): 'NCF' = complete-flagged element, 'NF' = plain element
FRAG_SYMS = ('NCF',)


# ---- reference automaton (pure function of the symbol sequence) ------------------------------------------------------
def conn_events(role, flavour):
    """Connection-loss events the transport actually reports to the engine. The aiohttp message transports do not
    propagate an orderly websocket close (client and server) nor a read error on the server side; see DESIGN.md."""
    if flavour in ('tcp', 'quic'):  # quic: both map to ConnectionTerminated, which the transport reports
        return ('eof', 'rst', 'close')
    return ('rst', 'close') if role != 'chan_resp' else ('close',)


class Ref:
    def __init__(self, role, flavour='tcp'):
        self.role = role
        self.conn_events = conn_events(role, flavour)
        self.conn = True
        self.peer_term = False  # peer closed its sending direction (complete) or killed the stream (error / requester cancel)
        self.peer_dead = False  # peer may send nothing at all any more
        self.peer_next = 0
        self.credit_to_peer = 1 if role in ('stream', 'chan_req', 'chan_resp') else 0
        self.local_term = role in ('rr', 'stream')  # local sending direction closed
        self.local_credit = 1 if role == 'chan_resp' else 0
        self.local_emitted = 0
        self.cancels = 0
        self.reqs = 0
        self.rn = 0
        self.over = False
        self.extra = 1

    def clone(self):
        r = Ref.__new__(Ref)
        r.__dict__.update(self.__dict__)
        return r

    def key(self):
        return tuple(sorted(self.__dict__.items()))

    def enabled(self):
        out = []
        ch = self.role in ('chan_req', 'chan_resp')
        if self.conn and not self.peer_dead:
            if not self.peer_term:
                if self.role == 'rr':
                    out += [('p', 'NC'), ('p', 'C'), ('p', 'E')]
                    if 'NCF' in FRAG_SYMS:
                        out.append(('p', 'NCF'))
                else:
                    if self.peer_next < self.credit_to_peer:
                        out += [('p', 'N'), ('p', 'NC')]
                        out += [('p', f) for f in FRAG_SYMS]
                    out += [('p', 'C'), ('p', 'E')]
            elif ch:
                out += [('p', 'E')] if False else []
            if ch and self.rn < 2:
                out.append(('p', 'RN'))
            if ch and not getattr(self, 'peer_cancelled', False):
                out.append(('p', 'X'))
        if self.role != 'rr':
            if self.reqs < 2:
                out.append(('l', 'req'))
        if self.cancels < (1 if self.role == 'rr' else 2):
            out.append(('l', 'cancel'))
        if ch and not self.local_term:
            if self.local_emitted < self.local_credit:
                out += [('l', 'emit'), ('l', 'emitC')]
            out += [('l', 'complete'), ('l', 'error')]
        if self.conn:
            out += [('c', e) for e in self.conn_events]
        return out

    def step(self, sym):
        k, a = sym
        ch = self.role in ('chan_req', 'chan_resp')
        if k == 'p':
            if a in ('N', 'NC', 'NF', 'NCF'):
                self.peer_next += 1
            if a in ('NC', 'C', 'NCF'):
                self.peer_term = True
            if a == 'E':
                self.peer_term = self.peer_dead = True
                self.over = True
            if a == 'RN':
                self.rn += 1
                self.local_credit += 1
            if a == 'X':
                self.peer_cancelled = True
                if self.role == 'chan_resp':  # requester's CANCEL kills the stream
                    self.peer_term = self.peer_dead = True
                    self.over = True
        elif k == 'l':
            if a == 'req':
                self.reqs += 1
                self.credit_to_peer += 1
            elif a == 'cancel':
                self.cancels += 1
                if self.role in ('rr', 'stream', 'chan_req'):
                    self.over = True
            elif a == 'emit':
                self.local_emitted += 1
            elif a in ('emitC', 'complete'):
                if a == 'emitC':
                    self.local_emitted += 1
                self.local_term = True
            elif a == 'error':
                self.local_term = True
                self.over = True
        else:
            self.conn = False
            self.over = True
        if not ch and self.peer_term:
            self.over = True
        if ch and self.peer_term and self.local_term:
            self.over = True
        return self


# ---- drivers ---------------------------------------------------------------------------------------------------------
class Driver:
    def __init__(self, role, flavour):
        self.role, self.flavour = role, flavour

    def setup(self):
        role = self.role
        self.futrec = None
        self.sub = None
        self.pub = None
        if role in ('rr', 'stream', 'chan_req'):
            s = self.s = Solo('client', self.flavour)
            w = s.w
            self.sid = 1
            if role == 'rr':
                self.futrec = watch_future(w, s.ep, 'fut', s.sock.request_response(P(b'q')))
            elif role == 'stream':
                self.sub = RecSubscriber(w, s.ep, 'sub')
                s.sock.request_stream(P(b'q')).initial_request_n(1).subscribe(self.sub)
            else:
                self.sub = RecSubscriber(w, s.ep, 'sub')
                self.pub = RecPublisher(w, s.ep, 'pub')
                s.sock.request_channel(P(b'q'), self.pub).initial_request_n(1).subscribe(self.sub)
            s.settle()
        else:
            self.sub = None
            self.pub = None

            def request_channel(h, p):
                self.pub = RecPublisher(h.w, h.ep, 'pub')
                self.sub = RecSubscriber(h.w, h.ep, 'sub', request_on_subscribe=1)
                return self.pub, self.sub

            s = self.s = Solo('server', self.flavour, beh={'request_channel': request_channel})
            self.sid = 1
            s.peer(R.enc_request(R.REQUEST_CHANNEL, 1, b'q', n=1))
        self.n = 0

    def apply(self, sym, mode='Q'):
        s, sid = self.s, self.sid
        k, a = sym
        if k == 'p':
            self.n += 1
            body = b'e%d' % self.n
            if a in ('NF', 'NCF'):
                s.peer(R.enc_payload(sid, body + b'-part1', b'm', follows=True), mode)
                s.peer(R.enc_payload(sid, b'-part2', complete=(a == 'NCF')), mode)
                return
            raw = {'N': lambda: R.enc_payload(sid, body), 'NC': lambda: R.enc_payload(sid, body, complete=True),
                   'C': lambda: R.enc_payload(sid, b'', complete=True, next=False),
                   'E': lambda: R.enc_error(sid, 0x201, b'boom'), 'RN': lambda: R.enc_request_n(sid, 1),
                   'X': lambda: R.enc_cancel(sid)}[a]()
            s.peer(raw, mode)
        elif k == 'l':
            if a == 'req':
                self.sub.subscription.request(1)
            elif a == 'cancel':
                if self.role == 'rr':
                    self.futrec['future'].cancel()
                else:
                    self.sub.subscription.cancel()
            elif a == 'emit':
                self.pub.emit(P(b'u'))
            elif a == 'emitC':
                self.pub.emit(P(b'u'), True)
            elif a == 'complete':
                self.pub.complete()
            elif a == 'error':
                self.pub.error(RuntimeError('app'))
            s.settle(mode)
        else:
            if a == 'eof':
                s.eof(mode)
            elif a == 'rst':
                s.rst(mode)
            else:
                s.close(mode)

    def finish(self):
        self.s.settle('Q')

    def check(self, ref):
        out = []
        tag = '%s/%s' % (self.role, self.flavour)
        if self.sub is not None:
            for rule, sig, detail in monitors.subscriber_grammar(self.sub):
                out.append((rule, sig + ' | ' + self.role, detail))
        if self.futrec is not None:
            for rule, sig, detail in monitors.future_once(self.futrec):
                out.append((rule, sig + ' | ' + self.role, detail))
            if not ref.conn and not self.futrec['future'].done():
                out.append(('C07.future-resolved-on-close', 'C07.future-resolved-on-close | %s' % self.role,
                            'connection ended but the awaitable is still pending'))
        for msg, exc, txt in self.s.w.loop.read_exc_log():
            if exc in ('InvalidStateError',):
                out.append(('C07.future-once', 'C07.future-once | loop-handler | %s' % exc, '%s: %s' % (msg, txt)))
        return out

    def signal_string(self):
        if self.sub is not None:
            return ''.join(x[0] + ('c' if x[0] == 'N' and x[2] else '') for x in self.sub.signals)
        return self.futrec['state']


def run_seq(role, flavour, seq, zero_at=None):
    """Execute one sequence on a fresh endpoint; returns (violations, signal string)."""
    d = Driver(role, flavour)
    ref = Ref(role, flavour)
    try:
        arm_watchdog(20)
        d.setup()
        for i, sym in enumerate(seq):
            ref.step(sym)
            d.apply(sym, '0' if zero_at == i else 'Q')
        d.finish()
        v = d.check(ref)
        sig = d.signal_string()
    except Livelock as e:
        v, sig = [('termination', 'termination | livelock | C07 %s' % role, str(e))], 'livelock'
    except Watchdog as e:
        v, sig = [('termination', 'termination | watchdog | C07 %s' % role, str(e))], 'watchdog'
    except Exception as e:
        from mc.explore import innermost_rsocket_frame
        where = innermost_rsocket_frame(e)
        if where is None:
            raise
        v, sig = [('api-exception', 'api-exception | exc=%s @ %s' % (type(e).__name__, where), repr(e))], 'exc'
    finally:
        disarm_watchdog()
        try:
            d.s.teardown()
        except Exception:
            pass
    return v, sig


def explore(role, flavour, depth, first, part):
    def visit(seq, ref):
        v, sig = run_seq(role, flavour, seq)
        part.evaluations += 1
        part.traces += 1
        part.transitions += len(seq)
        part.state((role, ref.key(), sig))
        part.outcome((role, sig))
        terminal_at = None
        r = Ref(role, flavour)
        for i, s in enumerate(seq):
            r.step(s)
            if r.over and terminal_at is None:
                terminal_at = i
        if terminal_at is not None and terminal_at < len(seq) - 1:
            part.nontriv((role, flavour, tuple(seq)))
        for rule, sg, detail in v:
            part.violate(rule, sg, detail, {'role': role, 'flavour': flavour, 'seq': [list(s) for s in seq], 'zero_at': None})
        # second pass: adjacent pairs in one loop iteration
        if 2 <= len(seq) <= depth - 1 or (len(seq) == depth and depth <= 4):
            for z in range(len(seq) - 1):
                v2, sig2 = run_seq(role, flavour, seq, zero_at=z)
                part.evaluations += 1
                part.traces += 1
                part.outcome((role, sig2))
                for rule, sg, detail in v2:
                    part.violate(rule, sg + ' | same-iteration', detail,
                                 {'role': role, 'flavour': flavour, 'seq': [list(s) for s in seq], 'zero_at': z})
        if len(seq) >= depth:
            return
        if ref.over:
            if ref.extra <= 0:
                return
        for sym in ref.enabled():
            r2 = ref.clone().step(sym)
            if ref.over:
                r2.extra = ref.extra - 1
            visit(seq + [sym], r2)

    ref0 = Ref(role, flavour)
    if first is None:
        visit([], ref0)
    else:
        visit([first], ref0.clone().step(first))
    if len(part.samples) < 2:
        part.sample({'role': role, 'link': flavour, 'first': list(first) if first else None, 'depth': depth})



# ---- the library's own publishers driving an application subscriber directly ----------------------------------------------
SRC_OPS = (('R', 1), ('R', 2), ('R', 0x7FFFFFFF), ('A', 5), ('A', 10), ('X',))
SRC_DEPTH = {'quick': 4, 'thorough': 5}


def source_configs():
    out = [('empty', 1, None, 0), ('error', 1, None, 0)]
    for kind in ('gen', 'agen'):
        for k in (1, 3):
            for raise_at in (None, 0, 1, 2, 3):
                if raise_at is not None and raise_at > k:
                    continue
                for delay_ms in (0, 10):
                    out.append((kind, k, raise_at, delay_ms))
    return out


def make_source(kind, k, raise_at, delay_ms):
    from datetime import timedelta
    els = [P(b'e%d' % i) for i in range(k)]
    delay = timedelta(milliseconds=delay_ms)
    if kind == 'empty':
        from rsocket.streams.empty_stream import EmptyStream
        return EmptyStream()
    if kind == 'error':
        from rsocket.streams.error_stream import ErrorStream
        return ErrorStream(RuntimeError('source fails'))
    if kind == 'gen':
        from rsocket.streams.stream_from_generator import StreamFromGenerator

        def gen():
            for i, e in enumerate(els):
                if raise_at == i:
                    raise RuntimeError('source fails')
                yield e, (i == k - 1 and raise_at is None)
            if raise_at == k:
                raise RuntimeError('source fails')

        return StreamFromGenerator(gen, delay_between_messages=delay)
    from rsocket.streams.stream_from_async_generator import StreamFromAsyncGenerator

    async def agen():
        for i, e in enumerate(els):
            if raise_at == i:
                raise RuntimeError('source fails')
            yield e, (i == k - 1 and raise_at is None)
        if raise_at == k:
            raise RuntimeError('source fails')

    return StreamFromAsyncGenerator(agen, delay_between_messages=delay)


def run_source_seq(cfg, seq):
    """One library publisher (generator-backed, empty, failing) subscribed by a recording application subscriber; the
    application requests, waits (virtual clock) and cancels in every order."""
    from mc.solo import Solo
    s = Solo('server', 'tcp')
    try:
        sub = RecSubscriber(s.w, s.ep, 'srcsub')
        pub = make_source(*cfg)
        pub.subscribe(sub)
        s.settle()
        for op in seq:
            if op[0] == 'R':
                # a subscriber that has seen its terminal signal does not ask for more (the handlers never do either: a
                # finished stream is unregistered, so no REQUEST_N reaches its source); what the sources do when asked
                # nevertheless is outside the property
                if sub.subscription is not None and sub.terminal() is None:
                    sub.subscription.request(op[1])
                s.settle()
            elif op[0] == 'A':
                s.advance(op[1] / 1000.0)
            else:
                if sub.subscription is not None:
                    sub.subscription.cancel()
                    sub.mark_cancel()
                s.settle()
        s.advance(0.1)  # whatever is still paced out arrives
        v = list(monitors.subscriber_grammar(sub))
        for msg, exc, txt in s.w.loop.read_exc_log():
            v.append(('C07.exception', 'C07.exception | source | %s' % exc, '%s %s' % (msg, txt)))
        sig = ''.join(('n' if (x[0] == 'N' and not x[2]) else ('T' if x[0] == 'N' else x[0])) for x in sub.signals)
        return v, sig
    finally:
        s.teardown()


def explore_sources(cfg, depth, part):
    def visit(seq):
        v, sig = run_source_seq(cfg, seq)
        part.evaluations += 1
        part.traces += 1
        part.transitions += len(seq) + 1
        part.state(('source', cfg, sig, tuple(x for x in seq if x[0] != 'R')))
        part.outcome(('source', sig))
        if any(ch in sig for ch in 'CET') and sig[-1] in 'CET' and len(seq) >= 2:
            part.nontriv(('source', cfg, tuple(seq)))
        for rule, sg, detail in v:
            part.violate(rule, sg + ' | source=%s%s%s' % (cfg[0], '/raises' if cfg[2] is not None else '', '/paced' if cfg[3] else ''), detail + ' ops=%s' % (seq,),
                         {'kind': 'source', 'cfg': list(cfg), 'seq': [list(x) for x in seq]})
        if len(seq) >= depth:
            return
        for op in SRC_OPS:
            if op[0] == 'A' and (cfg[3] == 0 or (seq and seq[-1][0] == 'A')):
                continue  # waiting matters only for paced sources
            if op[0] == 'X' and any(x[0] == 'X' for x in seq):
                continue
            visit(seq + [op])

    visit([])
    part.sample({'kind': 'source', 'cfg': list(cfg), 'depth': depth}, limit=1)


def make_units(tier):
    global FRAG_SYMS
    FRAG_SYMS = ('NCF',) if tier == 'quick' else ('NCF', 'NF')
    units = []
    for role, depth in DEPTH[tier].items():
        for flavour in ('tcp', 'msg', 'quic'):
            units.append({'role': role, 'flavour': flavour, 'depth': depth, 'first': None, 'root_only': True, 'frag': list(FRAG_SYMS)})
            for sym in Ref(role, flavour).enabled():
                units.append({'role': role, 'flavour': flavour, 'depth': depth, 'first': list(sym), 'frag': list(FRAG_SYMS)})
    for cfg in source_configs():
        units.append({'kind': 'source', 'cfg': list(cfg), 'depth': SRC_DEPTH[tier]})
    return units


def run_unit(unit, part):
    global FRAG_SYMS
    FRAG_SYMS = tuple(unit.get('frag', ('NCF',)))
    if unit.get('kind') == 'source':
        return explore_sources(tuple(unit['cfg']), unit['depth'], part)
    if unit.get('root_only'):
        v, sig = run_seq(unit['role'], unit['flavour'], [])
        part.evaluations += 1
        part.traces += 1
        part.transitions += 1
        part.state((unit['role'], 'root', sig))
        for rule, sg, detail in v:
            part.violate(rule, sg, detail, {'role': unit['role'], 'flavour': unit['flavour'], 'seq': [], 'zero_at': None})
        return
    explore(unit['role'], unit['flavour'], unit['depth'], tuple(unit['first']), part)


def replay(rec):
    w = rec['witness']
    if w.get('kind') == 'source':
        v1, sig1 = run_source_seq(tuple(w['cfg']), [tuple(x) for x in w['seq']])
        v2, sig2 = run_source_seq(tuple(w['cfg']), [tuple(x) for x in w['seq']])
        print('source:', w['cfg'], 'operations:', w['seq'], 'signals:', sig1)
        for v in v1:
            print('violation:', v)
        if repr(v1) != repr(v2) or sig1 != sig2:
            raise RuntimeError('replay not deterministic')
        return bool(v1)
    seq = [tuple(s) for s in w['seq']]
    v1, sig1 = run_seq(w['role'], w['flavour'], seq, w.get('zero_at'))
    v2, sig2 = run_seq(w['role'], w['flavour'], seq, w.get('zero_at'))
    print('sequence:', seq, 'same-iteration at', w.get('zero_at'))
    print('signals:', sig1)
    for v in v1:
        print('violation:', v)
    if repr(v1) != repr(v2) or sig1 != sig2:
        raise RuntimeError('replay not deterministic')
    return bool(v1)
