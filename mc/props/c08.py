"""C08 Wire legality for the emitter's role: reference protocol automaton attached to every execution of the
two-endpoint scenario sets (mixes of C01, endings of C10, cancellations of C09) plus lease scenarios."""
from mc.explore import dev_explore, replay_witness
from mc.props import c01, c09, c10
from mc.scen2 import Mix, Inter

RULE = ('DEV over the scenario sets of C01 (mixes of interactions, both initiators), C10 (every ending) and C09 (cancel at '
        'every point, incl. races between local cancel and incoming responses); per endpoint a reference protocol automaton '
        'judges every emitted frame against the endpoint\'s own prior receptions (a reception takes effect at the first '
        'quiescence after it); non-trivial = execution with >=2 interactions, fragmentation, cancel or error')
EXPLANATION = 'stateless deviation-bounded exploration; the monitor is a reference model of RSocket 1.0 per-role frame legality'
ASSUMPTIONS = ['asyncio ready queue FIFO', 'both peers are the real library (the peer is protocol-legal as far as the library is)',
               'receiving ERROR terminates a stream in both directions (RSocket 1.0 stream termination rule)']
BUDGET_S = {'quick': 300, 'thorough': 3600}


def make_units(tier):
    units = []
    for u in c01.make_units(tier):
        if tier == 'quick' and u['bound'] > 1:
            if u['shard'][0] != 0:
                continue
            u = dict(u, bound=1, shard=[0, 1])
        units.append(dict(u, src='c01', monitors=['legality']))
    for u in c10.make_units(tier):
        units.append(dict(u, src='c10', monitors=['legality']))
    for u in c09.make_units(tier):
        units.append(dict(u, src='c09', monitors=['legality']))
    return units


def bounds(tier):
    us = make_units(tier)
    return {'units': len(us), 'deviation_bounds': sorted({u['bound'] for u in us})}


def scenario_of(unit):
    alts = ('all', 'chunk') if unit['flavour'] == 'tcp' else ('all',)
    return Mix([Inter.from_spec(c10._full(d)) for d in unit['inters']],
               unit['flavour'], unit['fs'], alts=alts, modes=('Q', '0'), monitors_=('legality',), name=unit['name'],
               policy=unit.get('policy', 'deliver-first'))


def run_unit(unit, part):
    dev_explore(scenario_of(unit), unit['bound'], part, shard=tuple(unit['shard']), det_every=200)


def scenario_from(name, params):
    return Mix.from_params(params, name)


def replay(rec):
    w = rec['witness']
    return bool(replay_witness(scenario_from(w['scenario'], w['params']), w))
