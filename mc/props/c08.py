"""C08 Wire legality for the emitter's role: reference protocol automaton attached to every execution of the
two-endpoint scenario sets (mixes of C01, endings of C10, cancellations of C09) plus lease scenarios (SEQ)."""
from mc.explore import dev_explore, replay_witness
from mc.props import c01, c09, c10
from mc.scen2 import Mix, Inter

RULE = ('DEV over the scenario sets of C01 (mixes of interactions, both initiators), C10 (every ending) and C09 (cancel at '
        'every point, incl. races between local cancel and incoming responses); per endpoint a reference protocol automaton '
        'judges every emitted frame against the endpoint\'s own prior receptions (a reception takes effect at the first '
        'quiescence after it); non-trivial = execution with >=2 interactions, fragmentation, cancel or error')
EXPLANATION = 'stateless deviation-bounded exploration; the monitor is a reference model of RSocket 1.0 per-role frame legality'
ASSUMPTIONS = ['asyncio ready queue FIFO', 'both peers are the real library (the peer is protocol-legal as far as the library is)',
               'receiving ERROR terminates a stream in both directions (RSocket 1.0 stream termination rule)']
BUDGET_S = {'quick': 300, 'thorough': 3600}


def lease_sequences(depth):
    """Lease-honouring requester: requests, request(n) and cancel issued before / after LEASE arrives."""
    syms = [('L', 1), ('L', 2), ('R', 'stream'), ('R', 'channel'), ('R', 'rr'), ('N',), ('X',)]
    out = []

    def rec(seq):
        if any(x[0] == 'R' for x in seq):
            out.append(tuple(seq))
        if len(seq) >= depth:
            return
        for sy in syms:
            if sy[0] in ('N', 'X') and not any(x[0] == 'R' and x[1] != 'rr' for x in seq):
                continue
            rec(seq + [sy])

    rec([])
    return out


def run_lease(unit, part):
    from mc import monitors, refwire as R
    from mc.app import RecSubscriber, RecPublisher, P, watch_future
    from mc.solo import Solo
    for seq in lease_sequences(unit['depth']):
        if seq[0] != tuple(unit['first']):
            continue
        s = Solo('client', unit['flavour'], honor_lease=True, fragment_size_bytes=unit['fs'])
        try:
            subs = []
            for i, sy in enumerate(seq):
                if sy[0] == 'L':
                    s.peer(R.enc_lease(60000, sy[1]))
                elif sy[0] == 'R':
                    body = b'%02d' % i + (b'x' * 120 if unit['fs'] else b'')
                    if sy[1] == 'rr':
                        s.sock.request_response(P(body))
                    else:
                        sub = RecSubscriber(s.w, s.ep, 'sub%d' % i)
                        subs.append(sub)
                        if sy[1] == 'stream':
                            s.sock.request_stream(P(body)).initial_request_n(1).subscribe(sub)
                        else:
                            s.sock.request_channel(P(body), RecPublisher(s.w, s.ep, 'pub%d' % i)).initial_request_n(1).subscribe(sub)
                elif sy[0] == 'N':
                    subs[-1].subscription.request(2)
                else:
                    subs[-1].subscription.cancel()
                s.settle()
            s.peer(R.enc_lease(60000, 50))
            s.settle()
            v = monitors.wire_legality(s.log, s.ep, 'client')
            part.evaluations += 1
            part.traces += 1
            part.transitions += len(seq) + 1
            part.state(('lease', seq, tuple((f.type, f.sid) for f in s.sent())))
            part.outcome(tuple((f.type, f.sid) for f in s.sent()))
            part.nontriv(('lease', seq))
            for rule, sig, detail in v:
                part.violate(rule, sig + ' | lease-queued', detail + ' seq=%s' % (seq,),
                             {'kind': 'lease', 'flavour': unit['flavour'], 'fs': unit['fs'], 'seq': [list(x) for x in seq]})
        finally:
            s.teardown()


def run_sources(unit, part):
    """Responder backed by each library stream source, including sources that raise mid-stream and paced delivery
    (delay_between_messages > 0, virtual time): everything the responder emits is judged by the role automaton."""
    import itertools
    from datetime import timedelta
    from mc import monitors, refwire as R
    from mc.app import P
    from mc.solo import Solo
    src, flavour = unit['src_kind'], unit['flavour']
    as_channel = unit.get('as_channel', False)  # the source feeds a channel responder whose requester keeps its own direction open
    simple = src in ('empty', 'error')
    for k, raise_at, delay_ms, n0, rns in itertools.product((1, 3), (None, 0, 1, 2), (0, 10), (1, 2, 0x7FFFFFFF), ((), (1,), (2, 2), (0x7FFFFFFF,))):
        if raise_at is not None and raise_at > k:
            continue
        if simple and (k != 1 or raise_at is not None or delay_ms):
            continue
        for cancel_at in (None, 0, 1):
            def make():
                els = [P(b'e%d' % i) for i in range(k)]
                delay = timedelta(milliseconds=delay_ms)
                if src == 'empty':
                    from rsocket.streams.empty_stream import EmptyStream
                    return EmptyStream()
                if src == 'error':
                    from rsocket.streams.error_stream import ErrorStream
                    return ErrorStream(RuntimeError('source fails'))
                if src == 'gen':
                    from rsocket.streams.stream_from_generator import StreamFromGenerator

                    def gen():
                        for i, e in enumerate(els):
                            if raise_at == i:
                                raise RuntimeError('source fails')
                            yield e, (i == k - 1 and raise_at is None)
                        if raise_at == k:
                            raise RuntimeError('source fails')

                    return StreamFromGenerator(gen, delay_between_messages=delay)
                from rsocket.streams.stream_from_async_generator import StreamFromAsyncGenerator

                async def agen():
                    for i, e in enumerate(els):
                        if raise_at == i:
                            raise RuntimeError('source fails')
                        yield e, (i == k - 1 and raise_at is None)
                    if raise_at == k:
                        raise RuntimeError('source fails')

                return StreamFromAsyncGenerator(agen, delay_between_messages=delay)

            from mc.app import RecSubscriber
            s = Solo('server', flavour, beh={'request_stream': lambda h, p: make(),
                                             'request_channel': lambda h, p: (make(), RecSubscriber(h.w, h.ep, 'chsub', request_on_subscribe=2))})
            try:
                s.peer(R.enc_request(R.REQUEST_CHANNEL if as_channel else R.REQUEST_STREAM, 1, b'q', n=n0))
                for i, rn in enumerate(rns):
                    if cancel_at == i:
                        s.peer(R.enc_cancel(1))
                    if delay_ms:
                        s.advance(0.004 + 0.007 * i)
                    s.peer(R.enc_request_n(1, rn))
                if cancel_at is not None and cancel_at >= len(rns):
                    s.peer(R.enc_cancel(1))
                s.advance(0.2)
                v = monitors.wire_legality(s.log, s.ep, 'server', lenient_unknown=True)
                part.evaluations += 1
                part.traces += 1
                part.transitions += 2 + len(rns)
                oc = tuple((f.type, f.flags & 0xE0) for f in s.sent_on(1))
                part.state(('sources', src, k, raise_at, delay_ms, oc))
                part.outcome(oc)
                if raise_at is not None or delay_ms or cancel_at is not None:
                    part.nontriv((src, k, raise_at, delay_ms, n0, rns, cancel_at))
                for rule, sig, detail in v:
                    part.violate(rule, sig + ' | source=%s%s%s%s' % (src, '/raises' if raise_at is not None else '', '/paced' if delay_ms else '', '/channel' if as_channel else ''), detail,
                                 {'kind': 'sources', 'unit': unit, 'k': k, 'raise_at': raise_at, 'delay_ms': delay_ms, 'n0': n0, 'rns': list(rns), 'cancel_at': cancel_at})
            finally:
                s.teardown()
    part.sample({'kind': 'sources', 'source': src, 'link': flavour}, limit=1)


def run_negotiation(unit, part):
    """Server with / without a lease publisher x SETUP with / without the lease flag, followed by requests: LEASE frames are
    legal only on a connection whose SETUP asked for them."""
    from mc import monitors, refwire as R
    from mc.solo import Solo
    from rsocket.lease import SingleLeasePublisher
    from rsocket.helpers import create_future
    from mc.app import P
    for flavour in ('tcp', 'msg'):
        for publisher in (False, True):
            for lease_flag in (False, True):
                s = Solo('server', flavour, setup=False, beh={'request_response': lambda h, p: create_future(P(b'r'))},
                         lease_publisher=SingleLeasePublisher(maximum_request_count=3) if publisher else None)
                try:
                    s.peer(R.enc_setup(lease=lease_flag))
                    s.peer(R.enc_request(R.REQUEST_RESPONSE, 1, b'q'))
                    s.advance(1.0)
                    s.peer(R.enc_request(R.REQUEST_RESPONSE, 3, b'q'))
                    v = monitors.wire_legality(s.log, s.ep, 'server', lenient_unknown=True)
                    part.evaluations += 1
                    part.traces += 1
                    part.transitions += 3
                    part.state(('negotiation', flavour, publisher, lease_flag, tuple((f.type, f.sid) for f in s.sent())))
                    part.nontriv(('negotiation', flavour, publisher, lease_flag))
                    for rule, sig, detail in v:
                        part.violate(rule, sig + ' | negotiation', detail, {'kind': 'negotiation', 'unit': unit})
                finally:
                    s.teardown()
    part.sample({'kind': 'lease-negotiation'}, limit=1)


def make_units(tier):
    units = [{'src': 'negotiation', 'bound': 0, 'name': 'negotiation', 'shard': [0, 1], 'fs': None, 'flavour': 'tcp'}]
    for src_kind in ('gen', 'agen'):
        for flavour in ('tcp', 'msg'):
            units.append({'src': 'sources', 'src_kind': src_kind, 'flavour': flavour, 'bound': 0, 'name': 'sources', 'shard': [0, 1], 'fs': None})
        units.append({'src': 'sources', 'src_kind': src_kind, 'flavour': 'tcp', 'bound': 0, 'name': 'sources', 'shard': [0, 1], 'fs': None, 'as_channel': True})
    for src_kind in ('empty', 'error'):  # the library's EmptyStream / ErrorStream sources, under several credit frames
        for as_channel in (False, True):
            units.append({'src': 'sources', 'src_kind': src_kind, 'flavour': 'tcp', 'bound': 0, 'name': 'sources', 'shard': [0, 1], 'fs': None, 'as_channel': as_channel})
    for flavour, fs in (('tcp', None), ('msg', 64)):
        for first in (('L', 1), ('L', 2), ('R', 'stream'), ('R', 'channel'), ('R', 'rr')):
            units.append({'src': 'lease', 'flavour': flavour, 'fs': fs, 'first': list(first), 'depth': 4 if tier == 'quick' else 5,
                          'bound': 0, 'name': 'lease', 'shard': [0, 1]})
    if tier == 'quick':
        for u in c01.make_units(tier):
            if u['bound'] > 1:
                if u['shard'][0] != 0:
                    continue
                u = dict(u, bound=1, shard=[0, 1])
            if u.get('policy') == 'app-first-batch' and u['fs'] is None:
                continue
            units.append(dict(u, src='c01', monitors=['legality']))
        for u in c10._base_make_units(tier):
            if u.get('policy') == 'app-first-batch' and u['fs'] is None:
                continue  # quick: the second default policy only for the fragmenting configurations of the endings family
            units.append(dict(u, src='c10', monitors=['legality']))
        for u in c09.make_units(tier):
            if u.get('kind') == 'collector':
                units.append(dict(u, src='collector', rules='C08', name='collector-take-legality'))
                continue
            if u['bound'] > 1:
                continue  # quick: the cancel family at bound 1 under both policies (bound 2 is in C09's own check and in the thorough tier)
            units.append(dict(u, src='c09', monitors=['legality']))
        return units
    # thorough (sized to complete inside the budget on 16 cores): every C01 thorough configuration once at bound 1 under both
    # default policies; the endings family (C10) and the cancel family (C09) at bound 2 on the byte-stream link, bound 1 elsewhere
    seen = set()
    for u in c01.make_units(tier):
        key = (u['name'], repr(u['inters']), u['flavour'], u['fs'], u.get('round_robin', False))
        if key in seen or u['flavour'] not in ('tcp', 'msg', 'quic'):
            continue
        seen.add(key)
        for pol in ('deliver-first', 'app-first-batch'):
            units.append(dict(u, src='c01', monitors=['legality'], bound=1, shard=[0, 1], policy=pol))
    for fam, src in ((c10._base_make_units(tier), 'c10'), (c09.make_units(tier), 'c09')):
        seen = set()
        for u in fam:
            if u.get('kind') == 'collector':
                units.append(dict(u, src='collector', rules='C08', name='collector-take-legality'))
                continue
            if u['flavour'] == 'tcp':
                units.append(dict(u, src=src, monitors=['legality']))
                continue
            key = (u['name'], repr(u['inters']), u['flavour'], u['fs'])
            if key in seen:
                continue
            seen.add(key)
            for pol in ('deliver-first', 'app-first-batch'):
                units.append(dict(u, src=src, monitors=['legality'], bound=1, shard=[0, 1], policy=pol))
    return units


def bounds(tier):
    us = make_units(tier)
    return {'units': len(us), 'deviation_bounds': sorted({u['bound'] for u in us})}


def scenario_of(unit):
    alts = ('all', 'chunk') if unit['flavour'] in ('tcp', 'quic') else ('all',)
    return Mix([Inter.from_spec(c10._full(d)) for d in unit['inters']],
               unit['flavour'], unit['fs'], alts=alts, modes=('Q', '0'), monitors_=('legality',), name=unit['name'],
               policy=unit.get('policy', 'deliver-first'))


def run_unit(unit, part):
    if unit.get('src') == 'lease':
        return run_lease(unit, part)
    if unit.get('src') == 'negotiation':
        return run_negotiation(unit, part)
    if unit.get('src') == 'sources':
        return run_sources(unit, part)
    if unit.get('src') == 'collector':
        return c09.run_unit(unit, part)
    dev_explore(scenario_of(unit), unit['bound'], part, shard=tuple(unit['shard']), det_every=200)


def scenario_from(name, params):
    return Mix.from_params(params, name)


def replay(rec):
    w = rec['witness']
    if w.get('kind') == 'sources':
        from mc.runner import Partial
        p = Partial()
        run_sources(w['unit'], p)
        for v in p.violations.values():
            print(v.rule, '|', v.detail[:300])
        return rec['signature'] in p.violations
    if w.get('kind') == 'negotiation':
        from mc.runner import Partial
        p = Partial()
        run_negotiation(w['unit'], p)
        for v in p.violations.values():
            print(v.rule, '|', v.detail[:300])
        return rec['signature'] in p.violations
    if w.get('kind') == 'collector':
        return c09.replay(rec)
    if w.get('kind') == 'lease':
        from mc.runner import Partial
        p = Partial()
        run_lease({'flavour': w['flavour'], 'fs': w['fs'], 'first': w['seq'][0], 'depth': len(w['seq'])}, p)
        for v in p.violations.values():
            print(v.rule, '|', v.detail[:300])
        return rec['signature'] in p.violations
    return bool(replay_witness(scenario_from(w['scenario'], w['params']), w))
