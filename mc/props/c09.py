"""C09 Cancellation: the cancel action is an application event, so DEV places it at every choice point."""
from mc.explore import dev_explore, replay_witness
from mc.scen2 import Inter, Mix

RULE = ('DEV: interaction A in {request-response future.cancel(), stream, channel} with producer in {late response future, '
        'manual publisher, StreamFromGenerator, StreamFromAsyncGenerator} plus an unrelated concurrent stream B; cancel() is '
        'an application event enabled from the moment the request was issued, so bound>=1 places it at every choice point '
        '(incl. same loop iteration as the request via run mode 0 and batch delivery); oracle: exactly one CANCEL, nothing '
        'delivered to the canceller afterwards, peer producer cancelled unless it had already finished, no element after '
        'the peer processed CANCEL, B delivered completely; non-trivial = execution in which A was still pending when '
        'cancel() was called')
EXPLANATION = 'stateless deviation-bounded exploration on two real endpoints'
ASSUMPTIONS = ['asyncio ready queue FIFO', 'publishers respect credit']
BUDGET_S = {'quick': 240, 'thorough': 3000}


def cases():
    C = []
    C.append(('rr-late', dict(kind='rr', rr_mode='late', cancel_after=0)))
    for pub in ('manual', 'gen', 'agen'):
        for k in (0, 1):
            C.append(('stream-%s-c%d' % (pub, k), dict(kind='stream', down=3, pub=pub, cancel_after=k,
                                                       credit='one' if k else 'max', ending='flag' if pub != 'manual' else 'complete')))
        C.append(('channel-%s-c0' % pub, dict(kind='channel', down=3, up=1, pub=pub, cancel_after=0, credit='max',
                                              ending='flag' if pub != 'manual' else 'complete')))
        C.append(('channel-%s-c1' % pub, dict(kind='channel', down=3, up=0, pub=pub, cancel_after=1, credit='one', ending='flag')))
    # cancel() called from inside on_subscribe (allowed by Reactive Streams): before the request frame exists
    for pub in ('manual', 'gen', 'agen'):
        C.append(('stream-%s-cancel-in-on_subscribe' % pub, dict(kind='stream', down=3, pub=pub, cancel_after=-1, credit='max', ending='flag' if pub != 'manual' else 'complete')))
    C.append(('channel-gen-cancel-in-on_subscribe', dict(kind='channel', down=3, up=1, pub='gen', cancel_after=-1, credit='max', ending='flag')))
    # ... and a channel whose requester has no publisher of its own (its sending side completes with the request)
    for pub in ('manual', 'gen', 'agen'):
        C.append(('channel-%s-nopub-cancel-in-on_subscribe' % pub, dict(kind='channel', down=3, up=-1, pub=pub, cancel_after=-1, credit='max', ending='flag' if pub != 'manual' else 'complete')))
        C.append(('channel-%s-nopub-c0' % pub, dict(kind='channel', down=3, up=-1, pub=pub, cancel_after=0, credit='max', ending='flag' if pub != 'manual' else 'complete')))
    # the peer's direction ends with an ERROR that may still be in flight when cancel() is called
    C.append(('channel-manual-error-c0', dict(kind='channel', down=1, up=2, pub='manual', cancel_after=0, credit='max', ending='error')))
    C.append(('channel-manual-error-c1', dict(kind='channel', down=2, up=2, pub='manual', cancel_after=1, credit='one', ending='error')))
    C.append(('stream-manual-error-c1', dict(kind='stream', down=2, pub='manual', cancel_after=1, credit='one', ending='error')))
    # back-pressure sources whose elements become available one per application event: CANCEL arrives with credit to spare
    for pub in ('rx3bpq', 'rx4bpq'):
        C.append(('stream-%s-c1' % pub, dict(kind='stream', down=4, pub=pub, cancel_after=1, credit='max', ending='complete')))
        C.append(('channel-%s-c1' % pub, dict(kind='channel', down=4, up=0, pub=pub, cancel_after=1, credit='max', ending='complete')))
        C.append(('stream-%s-c0' % pub, dict(kind='stream', down=3, pub=pub, cancel_after=0, credit='max', ending='complete')))
    # cancel() called from inside on_next ("take(k)"), with elements possibly following in the same read
    for pub in ('manual', 'gen', 'agen', 'sync'):
        C.append(('stream-%s-cancel-in-on_next1' % pub, dict(kind='stream', down=3, pub=pub, cancel_after=101, credit='max', ending='flag' if pub != 'manual' else 'complete')))
        C.append(('channel-%s-cancel-in-on_next1' % pub, dict(kind='channel', down=3, up=1, pub=pub, cancel_after=101, credit='max', ending='flag' if pub != 'manual' else 'complete')))
    C.append(('stream-gen-cancel-in-on_next-last', dict(kind='stream', down=2, pub='gen', cancel_after=102, credit='max', ending='flag')))
    # a producer that emits synchronously from inside request(n)
    C.append(('stream-sync-c1', dict(kind='stream', down=3, pub='sync', cancel_after=1, credit='one', ending='flag')))
    C.append(('channel-sync-c1', dict(kind='channel', down=3, up=2, pub='sync', cancel_after=1, credit='one', ending='flag')))
    C.append(('stream-sync-c0', dict(kind='stream', down=3, pub='sync', cancel_after=0, credit='one', ending='flag')))
    # the handler coroutine is still suspended inside the peer's receiver when the CANCEL arrives
    C.append(('rr-slow-handler', dict(kind='rr', rr_mode='slow', cancel_after=0)))
    C.append(('stream-slow-handler-c0', dict(kind='stream', down=3, pub='manual', cancel_after=0, credit='max', ending='complete', rr_mode='slow')))
    C.append(('channel-slow-handler-c0', dict(kind='channel', down=3, up=1, pub='gen', cancel_after=0, credit='max', ending='flag', rr_mode='slow')))
    for pub in ('rx3', 'rx4', 'rx3bp', 'rx4bp'):
        C.append(('stream-%s-c0' % pub, dict(kind='stream', down=3, pub=pub, cancel_after=0, credit='max', ending='complete')))
        C.append(('stream-%s-c1' % pub, dict(kind='stream', down=3, pub=pub, cancel_after=1, credit='one', ending='complete')))
        C.append(('channel-%s-c1' % pub, dict(kind='channel', down=3, up=0, pub=pub, cancel_after=1, credit='one', ending='complete')))
    return C


def make_units(tier):
    units = [{'kind': 'collector', 'bound': 0, 'name': 'collector-take', 'shard': [0, 1], 'flavour': 'tcp', 'fs': None, 'inters': []}]
    n = 0
    for name, d in cases():
        for init in ('c', 's'):
            for flavour, fs in (('tcp', None), ('tcp', 64), ('msg', None)):
                n += 1
                A = dict(d, init=init, tag='A', size='F' if fs else 'S')
                B = dict(kind='stream', init=('s' if (n % 2) else 'c'), tag='B', down=2, pub='manual' if n % 3 else 'gen',
                         credit='max', size='F' if fs else 'S', ending='flag')
                # thorough: bound 2 on the unfragmented byte-stream link, bound 1 under both policies elsewhere (sized to finish inside the budget)
                bound = 2 if ((tier == 'thorough' and flavour == 'tcp' and fs is None) or (tier == 'quick' and n % 23 == 0)) else 1
                K = 16 if bound == 2 else 1
                for pol in (('deliver-first', 'app-first-batch') if bound == 1 else ('deliver-first',)):
                  for k in range(K):
                    units.append({'policy': pol, 'name': name, 'inters': [A, B], 'flavour': flavour, 'fs': fs, 'bound': bound, 'shard': [k, K],
                                  'monitors': ['cancel', 'delivery'], 'tier': tier})
    return units


def bounds(tier):
    us = make_units(tier)
    return {'cases': [c[0] for c in cases()], 'deviation_bounds': sorted({u['bound'] for u in us}),
            'scenario_configs': len({(u['name'], repr(u['inters']), u['flavour'], u['fs']) for u in us})}


def _full(d):
    base = Inter('rr', 'c', 'A').spec()
    base.update(d)
    return base


def scenario_of(unit):
    alts = ('all', 'chunk') if (unit['flavour'] == 'tcp' and unit.get('tier') == 'thorough') else ('all',)
    scn = Mix([Inter.from_spec(_full(d)) for d in unit['inters']], unit['flavour'], unit['fs'], alts=alts,
              modes=('Q', '0'), monitors_=tuple(unit['monitors']), name=unit['name'], policy=unit.get('policy', 'deliver-first'))
    scn.nontrivial = lambda w: bool(w.objs['st']['A'].get('pending_at_cancel'))
    return scn


def collector_take(flavour, kind, limit, take, sent, same_read, part, ending=None, rules='C09'):
    """The library's own 'take N' subscriber (CollectorSubscriber(limit_count=N)) against a scripted peer that has `sent`
    elements in flight: exactly one CANCEL, nothing beyond N in the result.  `ending`: the peer ends the stream itself - 'flag'
    (the last element carries COMPLETE), 'frame' (a bare COMPLETE follows), 'error' (an ERROR follows); a stream that ended
    with its N-th element must not be cancelled any more (rules='C08': only the wire-legality monitor judges)."""
    from mc import monitors
    from mc import refwire as R
    from mc.app import P
    from mc.solo import Solo
    from mc.world import inject
    from rsocket.awaitable.collector_subscriber import CollectorSubscriber
    s = Solo('client', flavour)
    try:
        col = CollectorSubscriber(limit_rate=limit, limit_count=take)
        real_next, real_complete, real_error = col.on_next, col.on_complete, col.on_error
        # the moment the library hands the stream's last signal to the collector: its terminal reception has been processed
        col.on_next = lambda v, is_complete=False: ((s.w.log.append(('collector-terminal', s.ep)) if is_complete else None), real_next(v, is_complete))[1]
        col.on_complete = lambda: (s.w.log.append(('collector-terminal', s.ep)), real_complete())[1]
        col.on_error = lambda e: (s.w.log.append(('collector-terminal', s.ep)), real_error(e))[1]
        real_send = s.sock.send_frame
        # when a frame is issued (put on the send queue), as opposed to when the sender task writes it
        s.sock.send_frame = lambda frame: (s.w.log.append(('issued', s.ep, type(frame).__name__, frame.stream_id, getattr(frame, 'flags_complete', False))), real_send(frame))[1]
        if kind == 'stream':
            s.sock.request_stream(P(b'q')).initial_request_n(limit).subscribe(col)
        else:
            s.sock.request_channel(P(b'q')).initial_request_n(limit).subscribe(col)
        s.settle()
        sid = 1
        frames = [R.enc_payload(sid, b'e%d' % i, complete=(ending == 'flag' and i == sent - 1)) for i in range(sent)]
        if ending == 'frame' or (ending == 'flag' and sent == 0):
            frames.append(R.enc_payload(sid, b'', complete=True, next=False))
        elif ending == 'error':
            frames.append(R.enc_error(sid, 0x201, b'source failed'))
        if same_read:
            for f in frames:
                inject(s.w, s.inn, f)
            s.deliver('Q')
        else:
            for f in frames:
                s.peer(f)
        s.settle()
        cancels = [f for f in s.sent_on(sid) if f.type == R.CANCEL]
        got = [bytes(p.data or b'') for p in col.values]
        want_n = min(take, sent)
        ctx = 'collector/%s | %s%s' % (kind, 'one-read' if same_read else 'one-per-read', ' | ends-' + ending if ending else '')
        wit = {'kind': 'collector', 'flavour': flavour, 'req': kind, 'limit': limit, 'take': take, 'sent': sent, 'same_read': same_read,
               'ending': ending, 'rules': rules}
        part.evaluations += 1
        part.traces += 1
        part.transitions += len(frames) + 1
        part.state(('collector', kind, limit, take, sent, same_read, ending, len(cancels), len(got)))
        part.nontriv(('collector', kind, limit, take, sent, same_read, ending))
        if rules == 'C10':
            # the application's interaction is over once the collector is done (N taken, or the peer ended the stream):
            # no stream entry, no partial payload, and the id is allocated again after a wrap of the id counter
            if col.is_done.is_set():
                streams, partial = monitors.open_state(s.sock)
                if streams or partial:
                    part.violate('C10.released', 'C10.released | collector/%s | %s | streams=%d partial=%d' % (kind, 'taken' if sent >= take and not (ending == 'flag' and sent == take) else 'ended-by-peer', len(streams), len(partial)),
                                 'collector done (take %d of %d, limit_rate %d, %s): stream table %s, reassembly cache %s' % (take, sent, limit, ctx, streams, partial), wit)
            return
        if rules == 'C08':
            for rule, sig, detail in monitors.wire_legality(s.log, s.ep, 'client'):
                part.violate(rule, sig + ' | ' + ctx, detail + ' (take %d of %d, limit_rate %d)' % (take, sent, limit), wit)
            # sharper than the monitor's quiescence dating: a frame about the inbound direction (CANCEL / REQUEST_N) issued
            # after the library itself handed the terminal signal of that direction to the collector
            log = list(s.w.log)
            marks = [i for i, ev in enumerate(log) if ev[0] == 'collector-terminal']
            if marks:
                own_done = kind == 'stream' or any(ev[0] == 'issued' and ev[3] == sid and ev[4] for ev in log[:marks[0]])
                for ev in log[marks[0]:]:
                    if ev[0] == 'issued' and ev[3] == sid and ev[2] in ('CancelFrame', 'RequestNFrame') and (own_done or ending == 'error'):
                        part.violate('C08.nothing-after-termination', 'C08.nothing-after-termination | requester/%s | %s | after-terminal-signal | %s' % (kind, ev[2], ctx),
                                     '%s issued after the stream\'s terminal signal had been delivered (take %d of %d, limit_rate %d)' % (ev[2], take, sent, limit), wit)
            return
        if ending == 'flag' and sent == take:
            # the N-th element ended the stream itself: there is nothing left to cancel
            if cancels:
                part.violate('C09.exactly-one-cancel', 'C09.exactly-one-cancel | %s | after-completion' % ctx,
                             'the %d-th element carried COMPLETE, yet %d CANCEL frames followed' % (take, len(cancels)), wit)
            if not col.is_done.is_set():
                part.violate('C09.nothing-after-cancel', 'C09.nothing-after-cancel | %s | collector-not-done' % ctx, 'the collector did not finish after %d elements' % take, wit)
        elif sent >= take:
            if len(cancels) != 1:
                part.violate('C09.exactly-one-cancel', 'C09.exactly-one-cancel | %s | cancels=%d' % (ctx, len(cancels)),
                             'take %d of %d elements in flight: %d CANCEL frames' % (take, sent, len(cancels)), wit)
            if not col.is_done.is_set():
                part.violate('C09.nothing-after-cancel', 'C09.nothing-after-cancel | %s | collector-not-done' % ctx, 'the collector did not finish after %d elements' % take, wit)
        elif cancels:
            part.violate('C09.exactly-one-cancel', 'C09.exactly-one-cancel | %s | premature' % ctx, 'CANCEL after %d of %d wanted elements' % (sent, take), wit)
        if got != [b'e%d' % i for i in range(want_n)]:
            part.violate('C09.nothing-after-cancel', 'C09.nothing-after-cancel | %s | got=%d want=%d' % (ctx, len(got), want_n),
                         'collector holds %s after taking %d of %d' % (got, take, sent), wit)
    finally:
        s.teardown()


def run_unit(unit, part):
    if unit.get('kind') == 'collector':
        for flavour in ('tcp', 'msg'):
            for kind in ('stream', 'channel'):
                for limit in (1, 2, 0x7FFFFFFF):
                    for take in (1, 2, 3):
                        for sent in range(0, 6):
                            if sent > limit and limit < 0x7FFFFFFF:
                                continue  # a legal peer does not send beyond the credit (the collector re-requests per window; keep it simple)
                            for same_read in (False, True):
                                for ending in (None, 'flag', 'frame', 'error'):
                                    collector_take(flavour, kind, limit, take, sent, same_read, part, ending, unit.get('rules', 'C09'))
        part.sample({'kind': 'collector-take'}, limit=1)
        return
    dev_explore(scenario_of(unit), unit['bound'], part, shard=tuple(unit['shard']), det_every=200)


def scenario_from(name, params):
    scn = Mix.from_params(params, name)
    return scn


def replay(rec):
    w = rec['witness']
    if w.get('kind') == 'collector':
        from mc.runner import Partial
        p = Partial()
        collector_take(w['flavour'], w['req'], w['limit'], w['take'], w['sent'], w['same_read'], p, w.get('ending'), w.get('rules', 'C09'))
        for v in p.violations.values():
            print(v.rule, '|', v.detail)
        return bool(p.violations)
    return bool(replay_witness(scenario_from(w['scenario'], w['params']), w))
