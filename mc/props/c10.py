"""C10 No per-stream state survives a terminated interaction: one interaction, every kind of ending, end-state oracle."""
from mc.explore import dev_explore, replay_witness
from mc.scen2 import Inter, Mix

RULE = ('(1) DEV over the family "one interaction (plus an unrelated request-response), every ending": complete, complete flag '
        'on last element, empty completion, application error (failed future / raising handler / publisher on_error), '
        'cancel by the requester at every point, cancel racing completion, channel directions closing in both orders and '
        'abnormally; both initiators, fragment size {None, 64}, links {tcp, msg}; after the fair flush both endpoints must '
        'hold no open stream and no partially reassembled frame, and must accept every stream id used in the execution again '
        '(assert_stream_id_available; in part (2) the scripted peer re-opens a channel under the same id); non-trivial = execution whose interaction ended '
        'abnormally (error/cancel) or with fragmentation on; (2) SEQ: one real endpoint vs a scripted legal peer whose fragmented payload is interrupted '
        'by our own terminal action (cancel / publisher error / completion) at every point, the peer then stopping or sending fragments still in flight')
EXPLANATION = 'stateless deviation-bounded exploration of real endpoints; oracle = the observation assert_no_open_streams makes, extended to the reassembly cache'
ASSUMPTIONS = ['connection stays open; publishers respect credit', 'asyncio ready queue FIFO']
BUDGET_S = {'quick': 240, 'thorough': 3000}


def endings():
    E = []
    # request-response
    for mode in ('now', 'late', 'error', 'raise', 'late-error'):
        E.append(('rr-' + mode, dict(kind='rr', rr_mode=mode)))
    E.append(('rr-cancel', dict(kind='rr', rr_mode='late', cancel_after=0)))
    # cancel racing a response that the handler had ready at once (resolved / failed future): CANCEL may arrive in the same read as the request
    E.append(('rr-now-cancel', dict(kind='rr', rr_mode='now', cancel_after=0)))
    E.append(('rr-error-cancel', dict(kind='rr', rr_mode='error', cancel_after=0)))
    # stream
    for pub in ('manual', 'gen', 'agen'):
        for ending in ('complete', 'flag') if pub == 'manual' else ('flag',):
            E.append(('stream-%s-%s' % (pub, ending), dict(kind='stream', down=2, pub=pub, ending=ending)))
        E.append(('stream-%s-empty' % pub, dict(kind='stream', down=0, pub=pub)))
        E.append(('stream-%s-cancel0' % pub, dict(kind='stream', down=3, pub=pub, cancel_after=0, credit='one')))
        E.append(('stream-%s-cancel1' % pub, dict(kind='stream', down=2, pub=pub, cancel_after=1, credit='one', ending='flag')))
    E.append(('stream-error', dict(kind='stream', down=1, pub='manual', ending='error')))
    E.append(('stream-raise', dict(kind='stream', down=1, pub='raise')))
    E.append(('stream-generator-factory-raises', dict(kind='stream', down=1, pub='genfactory')))
    E.append(('stream-async-generator-factory-raises', dict(kind='stream', down=1, pub='agenfactory')))
    # channel
    for ending in ('complete', 'flag', 'error'):
        for up_ending in ('complete', 'flag', 'error'):
            E.append(('channel-%s-%s' % (ending, up_ending), dict(kind='channel', down=1, up=1, pub='manual', ending=ending,
                                                                 up_ending=up_ending, credit='one')))
    E.append(('channel-empty', dict(kind='channel', down=0, up=0, pub='manual')))
    E.append(('channel-nopub', dict(kind='channel', down=1, up=-1, pub='manual')))
    E.append(('channel-gen', dict(kind='channel', down=2, up=2, pub='gen')))
    E.append(('channel-cancel0', dict(kind='channel', down=2, up=2, pub='manual', cancel_after=0, credit='one')))
    E.append(('channel-cancel1', dict(kind='channel', down=2, up=1, pub='manual', cancel_after=1, credit='one', ending='flag')))
    # receive-only / deaf responders x requester with / without its own publisher
    for pub in ('none', 'nonenone'):
        for up in ((-1, 0, 2) if pub == 'none' else (-1,)):  # a deaf responder never grants credit: only a requester without publisher terminates
            E.append(('channel-%s-up%d' % (pub, up), dict(kind='channel', down=0, up=up, pub=pub, credit='max',
                                                         up_ending='flag' if up == 2 else 'complete')))
    E.append(('stream-cancel-in-on_subscribe', dict(kind='stream', down=2, pub='gen', cancel_after=-1, ending='flag')))
    E.append(('channel-cancel-in-on_subscribe', dict(kind='channel', down=2, up=-1, pub='gen', cancel_after=-1, ending='flag')))
    E.append(('channel-raise', dict(kind='channel', down=1, up=1, pub='raise')))
    # an application publisher that signals its terminal event from inside subscribe(), before any demand
    for pub in ('subcomplete', 'suberror'):
        E.append(('stream-%s' % pub, dict(kind='stream', down=0, pub=pub, ending='error' if pub == 'suberror' else 'complete')))
        E.append(('channel-%s' % pub, dict(kind='channel', down=0, up=0, pub=pub, ending='error' if pub == 'suberror' else 'complete',
                                           up_ending='error' if pub == 'suberror' else 'complete')))
    # an application publisher that emits synchronously from inside request(n)
    for ending in ('flag', 'complete'):
        E.append(('stream-sync-%s' % ending, dict(kind='stream', down=3, pub='sync', ending=ending, credit='one')))
        E.append(('stream-sync-%s-max' % ending, dict(kind='stream', down=3, pub='sync', ending=ending, credit='max')))
        E.append(('channel-sync-%s' % ending, dict(kind='channel', down=2, up=2, pub='sync', ending=ending, up_ending=ending, credit='one')))
    E.append(('stream-sync-empty', dict(kind='stream', down=0, pub='sync', ending='complete')))
    E.append(('stream-sync-cancel1', dict(kind='stream', down=3, pub='sync', cancel_after=1, credit='one', ending='flag')))
    E.append(('channel-sync-max', dict(kind='channel', down=3, up=3, pub='sync', ending='flag', up_ending='flag', credit='max')))
    E.append(('stream-gen-cancel-in-on_next', dict(kind='stream', down=3, pub='gen', cancel_after=101, credit='max', ending='flag')))
    E.append(('stream-gen-cancel-in-last-on_next', dict(kind='stream', down=2, pub='gen', cancel_after=102, credit='max', ending='flag')))
    E.append(('channel-cancel-in-on_next', dict(kind='channel', down=3, up=-1, pub='gen', cancel_after=101, credit='max', ending='flag')))
    # the rest of the credit granted from inside on_subscribe
    E.append(('stream-gen-credit-in-on_subscribe', dict(kind='stream', down=3, pub='gen', credit='onsub', ending='flag')))
    E.append(('stream-manual-credit-in-on_subscribe', dict(kind='stream', down=2, pub='manual', credit='onsub')))
    E.append(('channel-credit-in-on_subscribe', dict(kind='channel', down=2, up=1, pub='manual', credit='onsub')))
    # 'unbounded' asked for twice from inside on_subscribe (demand adds up beyond 2^31-1)
    E.append(('stream-unbounded-twice-in-on_subscribe', dict(kind='stream', down=2, pub='manual', credit='onsubmax')))
    E.append(('channel-unbounded-twice-in-on_subscribe', dict(kind='channel', down=2, up=1, pub='manual', credit='onsubmax')))
    E.append(('fnf', dict(kind='fnf')))
    E.append(('push', dict(kind='push')))
    return E


def make_units(tier, monitors_=('nostate',)):
    units = []
    n = 0
    for name, d in endings():
        for init in ('c', 's'):
            for flavour, fs in (('tcp', None), ('tcp', 64), ('msg', 64)) if tier == 'quick' else (('tcp', None), ('tcp', 64), ('msg', None), ('msg', 64)):
                n += 1
                A = dict(d, init=init, tag='A', size='F' if fs else 'S')
                inters = [A]
                if n % 3 == 0:
                    inters.append(dict(kind='rr', init='s' if init == 'c' else 'c', tag='B', size='S'))
                bound = 2 if (tier == 'thorough' or n % 29 == 0) else 1
                K = 16 if bound == 2 else 1
                for pol in (('deliver-first', 'app-first-batch') if bound == 1 else ('deliver-first',)):
                  for k in range(K):
                    units.append({'policy': pol, 'name': name, 'inters': inters, 'flavour': flavour, 'fs': fs, 'bound': bound,
                                  'shard': [k, K], 'monitors': list(monitors_)})
    return units


_base_make_units = make_units


def make_units(tier, monitors_=('nostate',)):
    """The endings family plus every mix of C01 (two concurrent interactions, both initiators) at bound 1."""
    units = _base_make_units(tier, monitors_)
    from mc.props import c01
    seen = set()
    for u in c01.make_units(tier):
        if tier == 'quick':
            if u['bound'] > 1 or u.get('policy') == 'app-first-batch':
                continue
            units.append({'name': 'mix:' + u['name'], 'inters': u['inters'], 'flavour': u['flavour'], 'fs': u['fs'], 'bound': 1,
                          'shard': u['shard'], 'monitors': list(monitors_), 'policy': 'deliver-first'})
            continue
        # thorough: every C01 thorough configuration once, at bound 1 under both policies (C01's own thorough tier is the
        # place for bound 2; sized so that this tier completes inside its budget)
        key = (u['name'], repr(u['inters']), u['flavour'], u['fs'], u.get('round_robin', False))
        if key in seen or u['flavour'] not in ('tcp', 'msg', 'quic') or u.get('round_robin'):
            continue
        seen.add(key)
        for pol in ('deliver-first', 'app-first-batch'):
            units.append({'name': 'mix:' + u['name'], 'inters': u['inters'], 'flavour': u['flavour'], 'fs': u['fs'], 'bound': 1,
                          'shard': [0, 1], 'monitors': list(monitors_), 'policy': pol})
    from mc.props import c10_seq
    units.extend(c10_seq.make_units(tier))
    # the library's own take-N subscriber (CollectorSubscriber) as the application that ends the interaction
    units.append({'kind': 'collector', 'rules': 'C10', 'bound': 0, 'name': 'collector-take-released', 'shard': [0, 1], 'flavour': 'tcp', 'fs': None, 'inters': []})
    return units


def bounds(tier):
    us = [u for u in make_units(tier) if u.get('kind') not in ('seq', 'collector')]
    return {'interrupted_fragment_sequences_depth': 4 if tier == 'quick' else 5, 'endings': [e[0] for e in endings()], 'deviation_bounds': sorted({u['bound'] for u in us}),
            'scenario_configs': len({(u['name'], repr(u['inters']), u['flavour'], u['fs']) for u in us})}


def _full(d):
    base = Inter('rr', 'c', 'A').spec()
    base.update(d)
    return base


def scenario_of(unit):
    alts = ('all', 'chunk') if unit['flavour'] in ('tcp', 'quic') else ('all',)
    return Mix([Inter.from_spec(_full(d)) for d in unit['inters']], unit['flavour'], unit['fs'], alts=alts,
               modes=('Q', '0'), monitors_=tuple(unit['monitors']), name=unit['name'], policy=unit.get('policy', 'deliver-first'))


def run_unit(unit, part):
    if unit.get('kind') == 'seq':
        from mc.props import c10_seq
        return c10_seq.run_unit(unit, part)
    if unit.get('kind') == 'collector':
        from mc.props import c09
        return c09.run_unit(unit, part)
    scn = scenario_of(unit)
    dev_explore(scn, unit['bound'], part, shard=tuple(unit['shard']), det_every=200)


def scenario_from(name, params):
    return Mix.from_params(params, name)


def replay(rec):
    w = rec['witness']
    if w.get('kind') == 'seq':
        from mc.props import c10_seq
        return c10_seq.replay(rec)
    if w.get('kind') == 'collector':
        from mc.props import c09
        return c09.replay(rec)
    return bool(replay_witness(scenario_from(w['scenario'], w['params']), w))
