"""C10 second part: one real endpoint vs a scripted (legal) peer whose fragmented payload is interrupted by OUR
terminal action - the peer may then stop anywhere or keep sending fragments that were already in flight."""
import itertools

from mc import refwire as R, monitors
from mc.app import RecSubscriber, RecPublisher, P, watch_future
from mc.runner import arm_watchdog, disarm_watchdog
from mc.solo import Solo

ROLES = ('stream-requester', 'rr-requester', 'channel-requester', 'channel-responder')
# peer symbols: F = next fragment with follows, T = last fragment (no complete), TC = last fragment + complete,
# N = whole element; local symbols: X = cancel (subscription / future), PE = local publisher error, PC = local publisher complete
PEER = ('F', 'T', 'TC', 'N')
LOCAL = {'stream-requester': ('X',), 'rr-requester': ('X',), 'channel-requester': ('X', 'PC'), 'channel-responder': ('X', 'PC', 'PE')}


def sequences(role, depth):
    """Peer behaviour is legal: fragments of one payload are contiguous and only F/T/TC may follow an F; the train may
    simply stop (the peer saw our terminal frame). Our local action may come anywhere."""
    out = []

    def rec(seq, mid, local_done):
        if seq:
            out.append(tuple(seq))
        if len(seq) >= depth:
            return
        peer_done = 'TC' in seq or (role == 'rr-requester' and ('T' in seq or 'TC' in seq))
        for p in PEER:
            if peer_done:
                continue  # a legal peer sends nothing after completing its direction
            if mid and p == 'N':
                continue
            if not mid and p in ('T', 'TC'):
                continue
            if role == 'rr-requester' and p in ('T', 'N'):
                continue
            rec(seq + [p], p == 'F', local_done)
        for l in LOCAL[role]:
            if l not in local_done:
                rec(seq + [l], mid, local_done | {l})

    rec([], False, frozenset())
    return out


def run(role, flavour, seq):
    sid = 1
    pub = None
    if role == 'channel-responder':
        box = {}

        def rc(h, p):
            box['pub'] = RecPublisher(h.w, h.ep, 'pub')
            box['sub'] = RecSubscriber(h.w, h.ep, 'sub', request_on_subscribe=5)
            return box['pub'], box['sub']

        s = Solo('server', flavour, beh={'request_channel': rc})
        s.peer(R.enc_request(R.REQUEST_CHANNEL, sid, b'q', n=5))
        sub, pub = box['sub'], box['pub']
        fut = None
    else:
        s = Solo('client', flavour)
        fut = None
        sub = RecSubscriber(s.w, s.ep, 'sub')
        if role == 'stream-requester':
            s.sock.request_stream(P(b'q')).initial_request_n(5).subscribe(sub)
        elif role == 'rr-requester':
            fut = watch_future(s.w, s.ep, 'fut', s.sock.request_response(P(b'q')))
        else:
            pub = RecPublisher(s.w, s.ep, 'pub')
            s.sock.request_channel(P(b'q'), pub).initial_request_n(5).subscribe(sub)
        s.settle()
    n = 0
    for sym in seq:
        n += 1
        body = b'part%d' % n
        if sym == 'F':
            s.peer(R.enc_payload(sid, body, follows=True))
        elif sym == 'T':
            s.peer(R.enc_payload(sid, body))
        elif sym == 'TC':
            s.peer(R.enc_payload(sid, body, complete=True))
        elif sym == 'N':
            s.peer(R.enc_payload(sid, body))
        elif sym == 'X':
            if fut is not None:
                fut['future'].cancel()
            elif sub.subscription is not None:
                sub.subscription.cancel()
            s.settle()
        elif sym == 'PC':
            if pub.subscriber is not None:
                pub.complete()
            s.settle()
        elif sym == 'PE':
            if pub.subscriber is not None:
                pub.error(RuntimeError('app'))
            s.settle()
    s.settle()
    return s


def model(role, seq):
    """Reference: (terminated per the property, finished per the library's half-close semantics)."""
    recv_open = True
    send_open = role.startswith('channel')
    killed = False
    for x in seq:
        if x == 'TC' or (x == 'T' and role == 'rr-requester'):
            recv_open = False
        elif x == 'X':
            if recv_open:
                recv_open = False
                if role != 'channel-responder':
                    killed = True  # a requester's CANCEL terminates the stream
        elif x == 'PC':
            send_open = False
        elif x == 'PE':
            if send_open:
                send_open = False
                killed = True  # our ERROR terminates the stream
    lib_finished = not recv_open and not send_open
    return (killed or lib_finished), lib_finished


def terminated(role, seq):
    return model(role, seq)[0]


def run_unit(unit, part):
    role, flavour = unit['role'], unit['flavour']
    for seq in sequences(role, unit['depth']):
        try:
            arm_watchdog(20)
            s = run(role, flavour, seq)
        finally:
            disarm_watchdog()
        try:
            streams, partial = monitors.open_state(s.sock)
            part.evaluations += 1
            part.traces += 1
            part.transitions += len(seq)
            part.state((role, seq, tuple(streams), tuple(partial)))
            part.outcome((tuple(streams), tuple(partial)))
            interrupted = any(a == 'F' and b_ in ('X', 'PE', 'PC') for a, b_ in zip(seq, seq[1:])) or (seq and seq[-1] == 'F')
            if interrupted:
                part.nontriv((role, flavour, seq))
            wit = {'kind': 'seq', 'role': role, 'flavour': flavour, 'seq': list(seq)}
            if terminated(role, seq) and not _half_close_case(role, seq):
                shape = ''.join(('f' if x == 'F' else x.lower()) + '.' for x in seq)
                mid = seq and 'F' in seq and seq[-1] in ('F',)
                if partial:
                    when = 'fragment-after-termination' if _frag_after_term(role, seq) else 'fragment-before-termination'
                    part.violate('C10.no-partial-frames', 'C10.no-partial-frames | %s | %s' % (role, when),
                                 '%s retains a partially reassembled frame for streams %s after %s' % (role, partial, seq), wit)
                if streams and not _half_close_case(role, seq):
                    part.violate('C10.no-open-streams', 'C10.no-open-streams | scripted | %s | %s' % (role, '>'.join(x for x in seq if x in ('X', 'PE', 'PC', 'TC'))),
                                 '%s retains streams %s after %s' % (role, streams, seq), wit)
                if role == 'channel-responder' and not streams and not partial and seq[-1] != 'F':
                    # "the stream's id can be used again": the peer opens a new channel under the same id
                    mark = len(s.log)
                    s.peer(R.enc_request(R.REQUEST_CHANNEL, 1, b'again', n=5))
                    s.settle()
                    calls = [ev for ev in s.api('handler', mark) if ev[3] == 'request_channel']
                    errs = [f for f in s.sent_on(1, mark) if f.type == R.ERROR]
                    if len(calls) != 1 or errs:
                        part.violate('C10.id-usable-again', 'C10.id-usable-again | scripted | %s' % ('rejected' if errs else 'not-dispatched'),
                                     'a new REQUEST_CHANNEL under the id of the terminated channel after %s: handler calls %d, errors %s' % (seq, len(calls), errs), wit)
        finally:
            s.teardown()
    part.sample({'kind': 'interrupted-fragments', 'role': role, 'link': flavour, 'depth': unit['depth']}, limit=2)


def _frag_after_term(role, seq):
    term = min([i for i, x in enumerate(seq) if x in ('X', 'PE', 'TC')] or [len(seq)])
    return any(x == 'F' for x in seq[term + 1:])


def _half_close_case(role, seq):
    """Known finding family (channel keeps one direction open after ERROR / requester CANCEL): the property says the
    stream is over, the library keeps it until both directions closed. Reported by the two-endpoint checks; skipped here."""
    term, lib = model(role, seq)
    return term and not lib


def make_units(tier):
    return [{'kind': 'seq', 'role': r, 'flavour': f, 'depth': 4 if tier == 'quick' else 5} for r in ROLES for f in ('tcp', 'msg')]


def replay(rec):
    from mc.runner import Partial
    w = rec['witness']
    s = run(w['role'], w['flavour'], tuple(w['seq']))
    try:
        streams, partial = monitors.open_state(s.sock)
        print('sequence', w['seq'], '-> open streams', streams, 'partial frames', partial)
        for ev in s.log[-12:]:
            print('   ', ev)
        return bool(partial or streams)
    finally:
        s.teardown()
