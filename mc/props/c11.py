"""C11 Connection loss / close: fault enumeration at byte offsets on two real endpoints with a pending mix."""
from mc import refwire as R
from mc.explore import dev_explore, replay_witness
from mc.scen2 import Inter, Mix

RULE = ('DEV with fault budget: two real endpoints with a pending mix (late request-response, stream mid-flight, channel with both '
        'directions open, in both roles, fragment size {None,64}); at every choice point of the default execution and for each '
        'direction one fault: the link is cut after exactly k more bytes (quick: k around every frame boundary and inside the length '
        'prefix/header; thorough: every k) as orderly EOF, read error, or read error + failing writes; or explicit close() by either '
        'side; afterwards the clock advances 3 keep-alive periods; oracle per endpoint that observed the loss: every subscriber / '
        'awaitable handed out before is terminated (with an error if it was still pending), responder-side publishers and handler '
        'futures cancelled, on_close exactly once, nothing written after the loss was handled, tasks done; non-trivial = execution '
        'in which the fault struck while at least one interaction was pending; states = distinct world fingerprints at choice points. '
        'Close during reconnect (SEQ): client with a provider of three transports, previous connection ended by {nothing, EOF, read error, read '
        'error+failing writes}, reconnect() asked for by the application or from on_close, close() called k = 0..15 loop iterations later '
        '(tcp and quic, with and without pending requests); afterwards virtual time runs three lifetimes: no transport taken, no frame written')
EXPLANATION = 'stateless exploration: default schedule x every fault placement (bound 1), plus one further deviation before the fault (bound 2 units)'
ASSUMPTIONS = ['a read error on one side leaves the other side half-open (it is judged only if it observes a loss itself)',
               'message-mode links are not used: the aiohttp transport objects do not report an orderly close to the engine (DESIGN.md 7)']
BUDGET_S = {'quick': 300, 'thorough': 3600}


class LossMix(Mix):
    def __init__(self, inters, fs, cut_points, kinds, bound_faults=1, flavour='tcp', lease=False, slow_close=False, **kw):
        if lease:
            # the client honours leases and the server never grants one: every request stays parked in the lease queue
            from rsocket.lease import LeasePublisher
            kw = dict(kw, client_kw={'honor_lease': True}, server_kw={'lease_publisher': LeasePublisher()})
        super().__init__(inters, flavour, fs, monitors_=(), **kw)
        self.params['lease'] = lease
        self.slow_close = slow_close  # the application's on_close keeps awaiting until an explorer event lets it finish
        self.params['slow_close'] = slow_close
        self.cut_points = cut_points
        self.kinds = kinds
        self.world_kw = dict(self.world_kw, fault_budget=bound_faults)
        self.params.update({'cut_points': cut_points, 'fault_kinds': list(kinds), 'faults': bound_faults})

    def setup(self, w):
        super().setup(w)
        w.cut_points = self.cut_points
        w.fault_kinds = tuple(k for k in self.kinds if k in ('eof', 'rst', 'wr'))
        client, server = w.objs['client'], w.objs['server']
        if 'close' in self.kinds:
            w.closers['client'] = lambda: w.loop.create_task(client.close())
            w.closers['server'] = lambda: w.loop.create_task(server.close())
        if self.slow_close:
            gates = w.objs['close_gates'] = []

            def slow_on_close(h, rsocket):
                async def slow():
                    g = w.loop.create_future()
                    gates.append(g)
                    await g
                return slow()

            for sock in (client, server):
                sock._handler.beh['on_close'] = slow_on_close

            def release(w):
                for g in gates:
                    if not g.done():
                        g.set_result(None)

            from mc.world import Step
            w.add_actor('closedone', [Step('on_close-finishes%d' % i, release, guard=lambda w: any(not g.done() for g in gates)) for i in range(3)])

    def check(self, w):
        w.advance(1.6)
        out = []
        log = w.log
        for ep, name, sock in (('c0', 'client', w.objs['client']), ('s0', 'server', w.objs['server'])):
            loss = next((i for i, ev in enumerate(log) if ev[0] in ('eof', 'rst') and ev[1] == ep), None)
            # the application's own close() counts from the moment it was called, whether or not it ever gets to the transport
            closed = next((i for i, ev in enumerate(log) if (ev[0] == 'close' and ev[1] == ep) or (ev[0] == 'close-called' and ev[1] == name)), None)
            if loss is None and closed is None:
                continue
            at = min(x for x in (loss, closed) if x is not None)
            cause = 'close' if log[at][0] == 'close-called' else log[at][0]
            tag = '%s/%s' % (name, cause)
            # 1. requester-side handles
            for it in self.inters:
                st = w.objs['st'][it.tag]
                mine = (it.init == 'c') == (ep == 'c0')
                issued = next((i for i, ev in enumerate(log) if ev[0] == 'act' and ev[1] == 'req' + it.tag and ev[2] == 'request'), None)
                if issued is None or issued > at:
                    continue  # only what was pending at the moment of the loss is judged
                if mine:
                    sub = st.get('sub')
                    if sub is not None and sub.signals and sub.terminal() is None:
                        out.append(('C11.pending-failed', 'C11.pending-failed | %s | %s-subscriber-left-hanging' % (tag, it.kind),
                                    'subscriber of %s %s has signals %s and no terminal after the connection was lost' % (it.kind, it.tag, [x[0] for x in sub.signals])))
                    if sub is not None and sub.terminal() is not None:
                        ti = next(i for i, ev in enumerate(log) if ev[0] == 'api' and ev[2] == sub.name and ev[1] == ep and (ev[3] in ('C', 'E') or (ev[3] == 'N' and ev[4][1])))
                        if ti > at and sub.terminal()[0] != 'E' and not self._completed_by_wire(log, ep, sub, at):
                            out.append(('C11.pending-failed', 'C11.pending-failed | %s | %s-terminated-without-error' % (tag, it.kind),
                                        'pending %s %s was terminated with %s instead of an error' % (it.kind, it.tag, sub.terminal()[0])))
                    f = st.get('fut')
                    if f is not None and f['state'] == 'pending' and it.kind == 'rr':
                        out.append(('C11.pending-failed', 'C11.pending-failed | %s | awaitable-left-hanging' % tag,
                                    'request-response %s awaitable still pending' % it.tag))
                    if f is not None and f['state'] == 'pending' and it.kind in ('fnf', 'push'):
                        # the awaitable handed out by fire_and_forget / metadata_push (resolved when the frame has been written)
                        out.append(('C11.pending-failed', 'C11.pending-failed | %s | %s-awaitable-left-hanging' % (tag, it.kind),
                                    '%s %s awaitable still pending: its frame was never written and nothing failed it' % (it.kind, it.tag)))
                else:
                    # 2. responder side: producers cancelled
                    pub = st.get('pubd')
                    if pub is not None and it.pub == 'manual' and pub.subscriber is not None:
                        finished = any(ev[0] == 'api' and ev[2] == pub.name and ev[1] == ep and (ev[3] in ('emit-complete', 'emit-error') or (ev[3] == 'emit' and ev[4][1])) for ev in log)
                        if not finished and not pub.cancelled:
                            out.append(('C11.producers-cancelled', 'C11.producers-cancelled | %s | %s-publisher' % (tag, it.kind),
                                        'publisher of %s %s was neither finished nor cancelled' % (it.kind, it.tag)))
                    rf = st.get('rrfut')
                    if rf is not None and not rf.done():
                        out.append(('C11.producers-cancelled', 'C11.producers-cancelled | %s | handler-future' % tag,
                                    'handler future of request-response %s still pending' % it.tag))
                # channel requester's own publisher
                if mine and it.kind == 'channel':
                    pub = st.get('pubu')
                    if pub is not None and it.pub == 'manual' and pub.subscriber is not None:
                        finished = any(ev[0] == 'api' and ev[2] == pub.name and ev[1] == ep and (ev[3] in ('emit-complete', 'emit-error') or (ev[3] == 'emit' and ev[4][1])) for ev in log)
                        if not finished and not pub.cancelled:
                            out.append(('C11.producers-cancelled', 'C11.producers-cancelled | %s | channel-requester-publisher' % tag,
                                        'requester-side channel publisher was neither finished nor cancelled'))
            # 2b. generator-backed sources of this endpoint: nothing may be pulled from them once the loss has been handled
            oc0 = next((i for i in range(at, len(log)) if log[i][0] == 'api' and log[i][1] == ep and log[i][3] == 'on_close'), None)
            if oc0 is not None:
                # (on_close is delivered after every stream was stopped, so any pull after it is production that was not cancelled)
                pulled = [ev for ev in log[oc0:] if ev[0] == 'api' and ev[1] == ep and ev[3] == 'produce']
                if pulled:
                    out.append(('C11.producers-cancelled', 'C11.producers-cancelled | %s | source-still-pulled' % tag,
                                '%s: the source %s was pulled (element #%s) after the connection had ended and on_close was delivered' % (name, pulled[0][2], pulled[0][4])))
            # 3. on_close exactly once
            n = sum(1 for ev in log if ev[0] == 'api' and ev[1] == ep and ev[2] == 'handler' and ev[3] == 'on_close')
            if n != 1:
                out.append(('C11.on-close-once', 'C11.on-close-once | %s | n=%d' % (tag, n), 'on_close invoked %d times on %s' % (n, name)))
            # 4. nothing sent after the loss was handled: handled = first quiescence after on_close was delivered
            #    (a frame already queued may still be written while the teardown is in progress; that is not judged)
            oc = next((i for i in range(at, len(log)) if log[i][0] == 'api' and log[i][1] == ep and log[i][3] == 'on_close'), None)
            if oc is not None and self.slow_close:
                # the application's on_close is still running until the explorer lets it finish: the teardown (which stops the
                # sender after on_close) is only complete then
                oc = next((i for i in range(oc, len(log)) if log[i][0] == 'act' and log[i][1] == 'closedone'), len(log))
            if oc is None:
                oc = next((i for i in range(at, len(log)) if log[i][0] == 't'), len(log))
            ti = next((i for i in range(oc, len(log)) if log[i][0] == 'q'), len(log))
            late = [ev for ev in log[ti:] if ev[0] in ('tx', 'txc') and ev[1] == ep]
            if late:
                out.append(('C11.stops-sending', 'C11.stops-sending | %s | %s' % (tag, late[0][2].name), '%s wrote %s after the connection had ended' % (name, [e[2] for e in late[:4]])))
            # 5. tasks
            alive = [t for t in ('_receiver_task', '_sender_task', '_keepalive_task') if getattr(sock, t, None) is not None and not getattr(sock, t).done()]
            if alive:
                out.append(('C11.tasks-done', 'C11.tasks-done | %s | %s' % (tag, '+'.join(alive)), '%s still has live tasks %s' % (name, alive)))
        for msg, exc, txt in w.loop.read_exc_log():
            out.append(('C11.no-unhandled-exception', 'C11.no-unhandled-exception | %s' % exc, '%s: %s' % (msg, txt)))
        return out

    def _completed_by_wire(self, log, ep, sub, at):
        """The completing frame had been fed to the endpoint before the loss (it was merely processed afterwards)."""
        return any(ev[0] == 'rx' and ev[1] == ep and ev[2].type == R.PAYLOAD and ev[2].complete and not ev[2].follows for ev in log[:at])

    def nontrivial(self, w):
        at = next((i for i, ev in enumerate(w.log) if ev[0] in ('eof', 'rst', 'close')), None)
        if at is None:
            return False
        return any(ev[0] == 'tx' and ev[2].type in R.REQUEST_TYPES for ev in w.log[:at])

    def outcome(self, w):
        return tuple((ev[0], ev[1]) for ev in w.log if ev[0] in ('eof', 'rst', 'close')) + tuple(
            sorted((ev[1], ev[2], ev[3]) for ev in w.log if ev[0] == 'api' and ev[3] in ('E', 'future-error', 'cancel', 'on_close')))



# ---- close() while a reconnect is being carried out -----------------------------------------------------------------------
RECONNECT_CAUSES = ('healthy', 'eof', 'rst', 'wr')
CLOSE_STEPS = 16


def close_during_reconnect(flavour, cause, trigger, k, pending, part, role='client', after_loss=False, retry=False):
    """A client with a provider of three transports; the connection ends by `cause`, reconnect() is asked for (by the
    application itself or from its on_close callback), and the application calls close() exactly k loop iterations later -
    every k from 'same iteration' to 'the new connection is up'. After close() the client is closed: it sends nothing any more on
    any transport (virtual time runs on for three lifetimes), notifies on_close at most once per connection, and the requests
    that were pending have failed."""
    from datetime import timedelta
    from mc.app import P, RecSubscriber, watch_future
    from mc.world import World, start_client, start_server
    w = World()
    try:
        conns = [w.new_conn(flavour) for _ in range(3)]
        late = []

        def rr(h, p):
            f = w.loop.create_future()
            late.append(f)
            return f

        closes = []
        s_closes = []

        def s_on_close(h, rsocket):
            s_closes.append(len(w.log))

        for c in conns:
            start_server(w, c, {'request_response': rr, 'on_close': s_on_close})

        def on_close(h, rsocket):
            closes.append(len(w.log))
            if trigger == 'on_close' and len(closes) == 1:
                w.logev(('reconnect-requested', 'on_close'))
                return rsocket.reconnect()

        client = start_client(w, conns, {'on_close': on_close, 'request_response': rr}, keep_alive_period=timedelta(seconds=0.5), max_lifetime_period=timedelta(seconds=1.0))
        me = client if role == 'client' else conns[0].server  # the endpoint that loses the connection and is then closed
        mine_in, mine_out = (conns[0].s2c, conns[0].c2s) if role == 'client' else (conns[0].c2s, conns[0].s2c)

        def pump():
            for _ in range(6):
                moved = False
                for c in conns:
                    for d in (c.c2s, c.s2c):
                        if c.stream:
                            if d.pending and d.sink_alive():
                                d.deliver_bytes(len(d.pending))
                                moved = True
                        else:
                            while d.msgs and d.sink_alive():
                                d.deliver_message()
                                moved = True
                w.run_q()
                if not moved:
                    break

        w.run_q()
        pump()
        st = {}
        if pending:
            st['fut'] = watch_future(w, 'c', 'futA', me.request_response(P(b'late')))
            st['sub'] = RecSubscriber(w, 'c', 'subB')
            if retry:
                # the common retry-on-error pattern: the subscriber's on_error issues a new request at once - i.e. while the
                # endpoint is in the middle of failing its streams
                real_on_error = st['sub'].on_error

                def on_error_retry(exc):
                    real_on_error(exc)
                    if 'retry_fut' not in st:
                        st['retry_fut'] = watch_future(w, 'c', 'futR', me.request_response(P(b'retry')))

                st['sub'].on_error = on_error_retry
            me.request_stream(P(b's')).initial_request_n(1).subscribe(st['sub'])
            pump()
        # the previous connection ends / the application asks for the reconnect
        c0 = conns[0]
        if cause == 'eof':
            mine_in.deliver_eof()
        elif cause in ('rst', 'wr'):
            if cause == 'wr':
                mine_out.write_error = True
            mine_in.deliver_error()
        elif cause == 'closed':
            first_close = w.loop.create_task(me.close())  # the application itself closes - and closes again k iterations later
        if trigger == 'free':
            w.logev(('reconnect-requested', 'free'))
            w.loop.create_task(client.reconnect())
        for _ in range(k):
            w.loop.step()
        if after_loss:
            # the application goes on using the endpoint after the loss (it has not reconnected): these requests are pending
            # at the moment of close()
            st['late_fut'] = watch_future(w, 'c', 'futL', me.request_response(P(b'late-after-loss')))
            st['late_sub'] = RecSubscriber(w, 'c', 'subL')
            me.request_stream(P(b's-after-loss')).initial_request_n(1).subscribe(st['late_sub'])
        mark = len(w.log)
        w.logev(('close-called',))
        closer = w.loop.create_task(me.close())
        w.run_q()
        pump()
        quiet = len(w.log)
        # virtual time runs on: a closed client has no keepalive to send and takes no further transport
        loop = w.loop
        target = loop.time() + 3.0
        while True:
            t = loop.next_timer()
            if t is None or t > target:
                break
            loop.advance_to(t)
            w.run_q()
            pump()
        part.evaluations += 1
        part.traces += 1
        part.transitions += k + 2
        ctx = ('close-during-reconnect | %s/%s' % (cause, trigger)) if trigger != 'none' else ('close-during-teardown | %s/%s' % (role, cause))
        wit = {'kind': 'close-during-reconnect', 'flavour': flavour, 'cause': cause, 'trigger': trigger, 'k': k, 'pending': pending, 'role': role, 'late': after_loss, 'retry': retry}
        late_tx = [ev for ev in w.log[quiet:] if ev[0] == 'tx' and ev[1].startswith('c' if role == 'client' else 's')]
        took = [ev[1] for ev in w.log[quiet:] if ev[0] == 'provide']
        part.state((flavour, cause, trigger, pending, closer.done(), len(late_tx), len(took), len(closes)))
        part.outcome((closer.done(), bool(late_tx), len(closes)))
        if not any(ev[0] == 'provide' and ev[1] != conns[0].cname for ev in w.log[:mark]):
            part.nontriv((flavour, cause, trigger, k, pending))  # close() arrived before the next connection existed
        if late_tx or took:
            part.violate('C11.stops-sending', 'C11.stops-sending | %s | after-close' % ctx,
                         'close() called %d loop iterations after the reconnect request: afterwards the client took %s from its provider and wrote %s (close() %s)' % (
                             k, took, [ev[2].name for ev in late_tx][:6], 'returned' if closer.done() else 'never returned'), wit)
        per_conn = len(closes) if role == 'client' else len(s_closes)
        if per_conn > (2 if trigger != 'none' else 1):
            part.violate('C11.on-close-once', 'C11.on-close-once | %s | calls=%d' % (ctx, per_conn), 'on_close invoked %d times for at most %d connections' % (per_conn, 2 if trigger != 'none' else 1), wit)
        if trigger == 'none' and cause != 'healthy' and per_conn != 1:
            part.violate('C11.on-close-once', 'C11.on-close-once | %s | calls=%d' % (ctx, per_conn), 'connection lost and close() called %d iterations later: on_close invoked %d times' % (k, per_conn), wit)
        if pending and cause != 'healthy':
            if st['fut']['state'] == 'pending':
                part.violate('C11.pending-failed', 'C11.pending-failed | %s | awaitable' % ctx, 'request-response pending when the connection ended was never failed (k=%d)' % k, wit)
            if st['sub'].terminal() is None:
                part.violate('C11.pending-failed', 'C11.pending-failed | %s | subscriber' % ctx, 'stream pending when the connection ended was never failed (k=%d)' % k, wit)
        if retry and 'retry_fut' in st and st['retry_fut']['state'] == 'pending':
            part.violate('C11.pending-failed', 'C11.pending-failed | %s | awaitable-issued-from-on_error' % ctx,
                         'request-response issued from a subscriber\'s on_error while the endpoint was failing its streams is still pending after close() (k=%d)' % k, wit)
        if after_loss:
            if st['late_fut']['state'] == 'pending':
                part.violate('C11.pending-failed', 'C11.pending-failed | %s | awaitable-issued-after-loss' % ctx, 'request-response issued after the loss and pending at close() was never failed (k=%d)' % k, wit)
            if st['late_sub'].terminal() is None:
                part.violate('C11.pending-failed', 'C11.pending-failed | %s | subscriber-issued-after-loss' % ctx, 'stream issued after the loss and pending at close() was never failed (k=%d)' % k, wit)
        for msg, exc, txt in w.loop.read_exc_log():
            part.violate('C11.no-unhandled-exception', 'C11.no-unhandled-exception | %s | %s' % (ctx, exc), '%s: %s' % (msg, txt), wit)
    finally:
        w.teardown()


def mixes():
    M = {}
    M['rr+stream c'] = [dict(kind='rr', init='c', tag='A', rr_mode='late'), dict(kind='stream', init='c', tag='B', down=3, pub='manual', credit='one')]
    M['rr+stream s'] = [dict(kind='rr', init='s', tag='A', rr_mode='late'), dict(kind='stream', init='s', tag='B', down=3, pub='manual', credit='one')]
    M['channel c + rr s'] = [dict(kind='channel', init='c', tag='A', down=2, up=2, pub='manual', credit='one'), dict(kind='rr', init='s', tag='B', rr_mode='late')]
    M['channel s + stream c gen'] = [dict(kind='channel', init='s', tag='A', down=2, up=2, pub='manual', credit='one'),
                                      dict(kind='stream', init='c', tag='B', down=3, pub='gen', credit='one')]
    M['stream agen c + fnf s'] = [dict(kind='stream', init='c', tag='A', down=3, pub='agen', credit='one'), dict(kind='fnf', init='s', tag='B')]
    # "while a handler is running": the request-response handler coroutine is suspended inside the engine's receiver
    M['slow handler rr c + stream c'] = [dict(kind='rr', init='c', tag='A', rr_mode='slow'), dict(kind='stream', init='c', tag='B', down=2, pub='manual', credit='one')]
    M['slow handler rr s + channel c'] = [dict(kind='rr', init='s', tag='A', rr_mode='slow'), dict(kind='channel', init='c', tag='B', down=2, up=2, pub='manual', credit='one')]
    M['stream c first, then slow handler rr c'] = [dict(kind='stream', init='c', tag='B', down=3, pub='manual', credit='one'), dict(kind='rr', init='c', tag='A', rr_mode='slow')]
    M['channel s first, then slow handler rr c'] = [dict(kind='channel', init='s', tag='B', down=2, up=2, pub='manual', credit='one'), dict(kind='rr', init='c', tag='A', rr_mode='slow')]
    # other handler entry points suspended (fire-and-forget, metadata-push, stream and channel handlers)
    M['rr late c first, then slow fnf c'] = [dict(kind='rr', init='c', tag='B', rr_mode='late'), dict(kind='fnf', init='c', tag='A', rr_mode='slow')]
    M['stream s first, then slow push c'] = [dict(kind='stream', init='s', tag='B', down=2, pub='manual', credit='one'), dict(kind='push', init='c', tag='A', rr_mode='slow')]
    M['rr late s first, then slow stream handler c'] = [dict(kind='rr', init='s', tag='B', rr_mode='late'), dict(kind='stream', init='c', tag='A', down=2, pub='manual', credit='one', rr_mode='slow')]
    M['rr late c first, then slow channel handler s'] = [dict(kind='rr', init='c', tag='B', rr_mode='late'), dict(kind='channel', init='s', tag='A', down=1, up=1, pub='manual', credit='one', rr_mode='slow')]
    # a cleanup step that fails must not abort the rest: a publisher whose cancel() raises; a requester object the application
    # has obtained but not subscribed to yet (core API and the ReactiveX client, which registers the stream when the observable is created)
    M['publisher cancel raises (stream c) + rr late c'] = [dict(kind='stream', init='c', tag='A', down=3, pub='manual-craise', credit='one'), dict(kind='rr', init='c', tag='B', rr_mode='late')]
    M['publisher cancel raises (channel s) + rr late s + rr late c'] = [dict(kind='channel', init='s', tag='A', down=2, up=2, pub='manual-craise', credit='one'), dict(kind='rr', init='s', tag='B', rr_mode='late'), dict(kind='rr', init='c', tag='C', rr_mode='late')]
    M['unsubscribed stream c + rr late c'] = [dict(kind='stream-unsub', init='c', tag='A'), dict(kind='rr', init='c', tag='B', rr_mode='late')]
    M['unsubscribed rx stream s + rr late s + stream c'] = [dict(kind='rx-stream-unsub', init='s', tag='A'), dict(kind='rr', init='s', tag='B', rr_mode='late'), dict(kind='stream', init='c', tag='C', down=2, pub='manual', credit='one')]
    M['unsubscribed channel c + rr late c'] = [dict(kind='channel-unsub', init='c', tag='A'), dict(kind='rr', init='c', tag='B', rr_mode='late')]
    return M


def slow_sender_mixes():
    """Every write waits for an explicit release: frames sit in the send queue when the fault strikes."""
    M = {}
    M['slow sender: rr c + fnf c + push c'] = [dict(kind='rr', init='c', tag='A', rr_mode='late'), dict(kind='fnf', init='c', tag='B'), dict(kind='push', init='c', tag='C')]
    M['slow sender: stream s + fnf s + push s'] = [dict(kind='stream', init='s', tag='A', down=2, pub='manual', credit='one'), dict(kind='fnf', init='s', tag='B'), dict(kind='push', init='s', tag='C')]
    return M


def _full(d):
    base = Inter('rr', 'c', 'A').spec()
    base.update(d)
    return base


def make_units(tier):
    units = []
    n = 0
    for name, inters in mixes().items():
        for fs in (None, 64):
            for kinds in (('eof',), ('rst',), ('wr',), ('close',)):
                n += 1
                ins = [dict(d, size='F' if fs else 'S') for d in inters]
                cut = 'all' if (tier == 'thorough' or fs is None) else 'boundaries'
                units.append({'name': name, 'inters': ins, 'fs': fs, 'kinds': list(kinds), 'cut_points': cut, 'bound': 1, 'shard': [0, 1]})
                if tier == 'thorough' or n % 10 == 0:
                    K = 16
                    for k in range(K):
                        units.append({'name': name, 'inters': ins, 'fs': fs, 'kinds': list(kinds), 'cut_points': 'boundaries', 'bound': 2, 'shard': [k, K]})
    lease_mixes = {'lease never granted: rr c + stream c + fnf c': [dict(kind='rr', init='c', tag='A', rr_mode='late'), dict(kind='stream', init='c', tag='B', down=2, pub='manual', credit='one'), dict(kind='fnf', init='c', tag='C')],
                   'lease never granted: channel c + rr s': [dict(kind='channel', init='c', tag='A', down=1, up=1, pub='manual', credit='one'), dict(kind='rr', init='s', tag='B', rr_mode='late')]}
    for name, inters in lease_mixes.items():
        for kinds in (('eof',), ('rst',), ('close',)):
            units.append({'name': name, 'inters': [dict(d, size='S') for d in inters], 'fs': None, 'kinds': list(kinds), 'cut_points': 'boundaries', 'bound': 1, 'shard': [0, 1], 'lease': True})
    # a second connection event while the application's on_close handler is still running (e.g. the peer's EOF, then close())
    for name in ('rr+stream c', 'channel c + rr s'):
        inters = mixes()[name]
        for kinds in (('eof', 'close'), ('rst', 'close')):
            K = 8
            for k in range(K):
                units.append({'name': name + ' / slow on_close', 'inters': [dict(d, size='S') for d in inters], 'fs': None, 'kinds': list(kinds), 'cut_points': 'boundaries',
                              'bound': 2, 'shard': [k, K], 'slow_close': True, 'faults': 2, 'no_alts': True})
    for name, inters in slow_sender_mixes().items():
        for fs in (None, 64):
            for kinds in (('eof',), ('rst',), ('wr',), ('close',)):
                ins = [dict(d, size='F' if fs else 'S') for d in inters]
                units.append({'name': name, 'inters': ins, 'fs': fs, 'kinds': list(kinds), 'cut_points': 'boundaries', 'bound': 1, 'shard': [0, 1], 'slow_sender': True})
    # the QUIC transport is the other transport class that reports a lost connection to the engine (ConnectionTerminated)
    for name, inters in mixes().items():
        for fs in (None, 64):
            for kinds in (('rst',), ('wr',), ('close',)):
                ins = [dict(d, size='F' if fs else 'S') for d in inters]
                units.append({'name': name, 'inters': ins, 'fs': fs, 'kinds': list(kinds), 'cut_points': 'all' if tier == 'thorough' else 'boundaries',
                              'bound': 1, 'shard': [0, 1], 'flavour': 'quic'})
    for flavour in ('tcp', 'quic'):
        units.append({'kind': 'close-during-reconnect', 'flavour': flavour, 'name': 'close-during-reconnect', 'bound': 0, 'shard': [0, 1], 'inters': [], 'fs': None, 'kinds': [], 'cut_points': 'boundaries'})
    return units


def bounds(tier):
    us = make_units(tier)
    return {'mixes': sorted(mixes()), 'fault_kinds': ['eof', 'rst', 'wr (read error + failing writes)', 'close()'],
            'cut_points': 'every byte offset (fs=None; thorough: always), frame-boundary neighbourhood otherwise',
            'deviation_bounds': sorted({u['bound'] for u in us})}


def scenario_of(unit):
    return LossMix([Inter.from_spec(_full(d)) for d in unit['inters']], unit['fs'], unit['cut_points'], tuple(unit['kinds']),
                   bound_faults=unit.get('faults', 1), slow_close=unit.get('slow_close', False),
                   alts=('all',) if (unit['bound'] > 1 and not unit.get('no_alts')) else (), modes=('Q',), name=unit['name'], flavour=unit.get('flavour', 'tcp'), slow_sender=unit.get('slow_sender', False), lease=unit.get('lease', False))


def run_unit(unit, part):
    if unit.get('kind') == 'close-during-reconnect':
        for cause in RECONNECT_CAUSES:
            for trigger in (('free',) if cause == 'healthy' else ('free', 'on_close')):
                for pending in (False, True):
                    for k in range(CLOSE_STEPS):
                        close_during_reconnect(unit['flavour'], cause, trigger, k, pending, part)
        # no reconnect at all: close() called k loop iterations after the loss, i.e. in the middle of the teardown, in both roles
        for role in ('client', 'server'):
            for cause in RECONNECT_CAUSES + ('closed',):
                for pending in (False, True):
                    for k in range(CLOSE_STEPS):
                        close_during_reconnect(unit['flavour'], cause, 'none', k, pending, part, role)
            # requests issued on the dead endpoint after the loss (no reconnect) are pending when close() is called
            for cause in ('eof', 'rst', 'wr'):
                for k in (0, 1, 2, 4, 8, CLOSE_STEPS, 40):
                    close_during_reconnect(unit['flavour'], cause, 'none', k, False, part, role, after_loss=True)
                for k in (0, 2, 8, CLOSE_STEPS):
                    close_during_reconnect(unit['flavour'], cause, 'none', k, True, part, role, retry=True)
        part.sample({'kind': 'close-during-reconnect', 'link': unit['flavour'], 'causes': list(RECONNECT_CAUSES), 'close_after_loop_iterations': [0, CLOSE_STEPS - 1]}, limit=1)
        return
    dev_explore(scenario_of(unit), unit['bound'], part, shard=tuple(unit['shard']), det_every=200)


def scenario_from(name, params):
    return LossMix([Inter.from_spec(d) for d in params['inters']], params['fs'], params['cut_points'], tuple(params['fault_kinds']),
                   bound_faults=params.get('faults', 1), alts=tuple(params['alts']), modes=tuple(params['modes']), name=name,
                   flavour=params.get('flavour', 'tcp'), slow_sender=params.get('slow_sender', False), lease=params.get('lease', False), slow_close=params.get('slow_close', False))


def replay(rec):
    w = rec['witness']
    if w.get('kind') == 'close-during-reconnect':
        from mc.runner import Partial
        p = Partial()
        close_during_reconnect(w['flavour'], w['cause'], w['trigger'], w['k'], w['pending'], p, w.get('role', 'client'), w.get('late', False), w.get('retry', False))
        for v in p.violations.values():
            print(v.rule, '|', v.detail)
        return bool(p.violations)
    return bool(replay_witness(scenario_from(w['scenario'], w['params']), w))
