"""C12 Containment of hostile input and failing application code: one real endpoint with a live stream, a finished
stream and an in-flight request receives hostile items from a scripted peer (or its application code raises); afterwards
the in-flight request and fresh probes must be served, tasks alive, reactions confined to the offending stream."""
import itertools

from mc import refwire as R
from mc.app import RecSubscriber, RecPublisher, P, watch_future, AppRaise, RecHandler, pl
from mc.runner import arm_watchdog, disarm_watchdog, Watchdog
from mc.solo import Solo
from mc.vloop import Livelock

RULE = ('PROD/SEQ: (i) header space: all 64 frame type ids x 64 patterns of the flag bits x stream ids {0, unknown own-parity, '
        'unknown peer-parity, live, finished} x bodies {empty, 4x00, 20xFF, a valid body of that type truncated at several/all '
        'offsets}; (ii) all sequences of <=2 (thorough 3) hostile items: raw byte strings over {00,01,FF} up to length 2 and junk '
        'blobs (padded to the boundary the reference deframer computes), empty message, frames for unknown/finished streams, '
        'orphan fragments, request on a live id, REQUEST_N(0), ERROR with non-UTF-8 data / unknown code, duplicate SETUP, RESUME, '
        'LEASE, KEEPALIVE, RESUME_OK; (iii) every application entry point raising (handler methods sync/after await, failing '
        'future, publisher raising in subscribe/request/iteration, subscriber raising in each callback, router handlers, Rx '
        'observables erroring); both roles, both links; non-trivial = case whose item is not a well-formed frame for an '
        'existing or new stream; distinct_outcomes = distinct reactions on the wire')
EXPLANATION = 'complete enumeration of the stated finite input alphabets against a real endpoint on the virtual loop; containment oracle with in-flight and fresh probes'
ASSUMPTIONS = ['a frame that is well-formed for an existing or new stream is served normally (its reaction is judged only for stream confinement)',
               'hostile raw bytes are padded to the frame boundary implied by their own bogus length prefix (that swallowing is legitimate)']
BUDGET_S = {'quick': 300, 'thorough': 3000}

FLAG_BITS = (0x200, 0x100, 0x80, 0x40, 0x20, 0x01)


def flag_patterns(tier):
    bits = FLAG_BITS if tier == 'quick' else (0x200, 0x100, 0x80, 0x40, 0x20, 0x10, 0x08, 0x04, 0x02, 0x01)
    for mask in range(1 << len(bits)):
        v = 0
        for i, b_ in enumerate(bits):
            if mask & (1 << i):
                v |= b_
        yield v


def valid_body(t):
    raw = {
        R.SETUP: R.enc_setup(data=b'd', metadata=b'm'), R.LEASE: R.enc_lease(1000, 2), R.KEEPALIVE: R.enc_keepalive(True, b'k'),
        R.REQUEST_RESPONSE: R.enc_request(R.REQUEST_RESPONSE, 1, b'q', b'm'), R.REQUEST_FNF: R.enc_request(R.REQUEST_FNF, 1, b'q'),
        R.REQUEST_STREAM: R.enc_request(R.REQUEST_STREAM, 1, b'q', n=2), R.REQUEST_CHANNEL: R.enc_request(R.REQUEST_CHANNEL, 1, b'q', n=2),
        R.REQUEST_N: R.enc_request_n(1, 3), R.CANCEL: R.enc_cancel(1), R.PAYLOAD: R.enc_payload(1, b'pp', b'm'),
        R.ERROR: R.enc_error(1, 0x201, b'e'), R.METADATA_PUSH: R.enc_metadata_push(b'mp'), R.RESUME: R.enc_resume(),
        R.RESUME_OK: R.enc_resume_ok(1)}.get(t)
    return raw[6:] if raw else b'\x00\x01\x02\x03\x04\x05\x06\x07'


def bodies(t, tier):
    vb = valid_body(t)
    out = [b'', b'\x00' * 4, b'\xff' * 20, vb]
    cuts = range(1, len(vb)) if tier == 'thorough' else sorted({1, 3, max(1, len(vb) // 2), max(1, len(vb) - 1)})
    for c in cuts:
        if 0 < c < len(vb):
            out.append(vb[:c])
    seen, res = set(), []
    for b_ in out:
        if b_ not in seen:
            seen.add(b_)
            res.append(b_)
    return res


# ---- the bench: endpoint with live / finished / in-flight streams -------------------------------------------------
class Bench:
    """role = which side is real."""

    def __init__(self, role, flavour, beh_extra=None, handler_factory=None, lenient=False):
        self.role, self.flavour = role, flavour
        self.viol = []
        self.lenient = lenient
        w = None
        if role == 'server':
            self.live_pub = None
            self.late = {}

            def request_stream(h, p):
                d = bytes(p.data or b'')
                if d == b'live':
                    self.live_pub = RecPublisher(h.w, h.ep, 'livepub')
                    return self.live_pub
                from rsocket.streams.stream_from_generator import StreamFromGenerator

                def gen():
                    for i in range(2):
                        yield P(b'g%d' % i), i == 1

                return StreamFromGenerator(gen)

            def request_response(h, p):
                from rsocket.helpers import create_future
                d = bytes(p.data or b'')
                if d == b'late':
                    f = h.w.loop.create_future()
                    self.late['f'] = f
                    return f
                return create_future(P(b'R:' + d, p.metadata))

            beh = {'request_stream': request_stream, 'request_response': request_response}
            if beh_extra:
                beh.update(beh_extra)
            s = self.s = Solo('server', flavour, beh=beh, handler_factory=handler_factory)
            self.LIVE, self.FIN, self.INFL = 3, 5, 7
            s.peer(R.enc_request(R.REQUEST_STREAM, 3, b'live', n=1))
            if self.live_pub is not None and self.live_pub.subscriber is not None:
                self.live_pub.emit(P(b'l0'))
            s.peer(R.enc_request(R.REQUEST_RESPONSE, 5, b'fin'))
            s.peer(R.enc_request(R.REQUEST_RESPONSE, 7, b'late'))
            s.settle()
            self.sids = {'zero': 0, 'own-unknown': 20, 'peer-unknown': 21, 'live': 3, 'finished': 5}
        else:
            beh = {'request_response': lambda h, p: __import__('rsocket.helpers', fromlist=['create_future']).create_future(P(b'R:' + bytes(p.data or b''), p.metadata))}
            if beh_extra:
                beh.update(beh_extra)
            s = self.s = Solo('client', flavour, beh=beh, handler_factory=handler_factory)
            w = s.w
            self.live_sub = RecSubscriber(w, s.ep, 'livesub')
            s.sock.request_stream(P(b'live')).initial_request_n(5).subscribe(self.live_sub)
            s.settle()
            s.peer(R.enc_payload(1, b'l0'))
            self.fin_f = watch_future(w, s.ep, 'fin', s.sock.request_response(P(b'fin')))
            s.settle()
            s.peer(R.enc_payload(3, b'R:fin', complete=True))
            self.infl_f = watch_future(w, s.ep, 'infl', s.sock.request_response(P(b'late')))
            s.settle()
            self.LIVE, self.FIN, self.INFL = 1, 3, 5
            self.sids = {'zero': 0, 'own-unknown': 21, 'peer-unknown': 20, 'live': 1, 'finished': 3}
        self.mark = len(self.s.log)

    def reaction(self):
        return [f for f in self.s.sent(self.mark)]

    def probes(self, offending_sids, tag):
        """In-flight request, live stream (when untouched) and fresh probes must still be served."""
        s = self.s
        v = []

        def bad(rule, ctx, detail):
            v.append(('C12.' + rule, 'C12.%s | %s | %s' % (rule, ctx, tag), detail))

        if s.w.errors:
            bad('terminates', '%s/%s' % (self.role, ','.join(s.w.errors)), 'processing of the input did not terminate: %s' % s.w.errors)
            return v
        alive = s.tasks_alive()
        if not alive['receiver'] or not alive['sender']:
            bad('tasks-alive', '%s/%s' % (self.role, '+'.join(k for k, a in alive.items() if not a)), 'endpoint tasks after the input: %s' % alive)
            return v
        m2 = len(s.log)
        if self.role == 'server':
            if self.INFL not in offending_sids:
                f = self.late.get('f')
                if f is None or f.done():
                    bad('in-flight-served', 'server/late-future-state', 'in-flight handler future missing or already done: %s' % f)
                else:
                    f.set_result(P(b'R:late'))
                    s.settle()
                    got = [x for x in s.sent_on(self.INFL, m2)]
                    if not (len(got) == 1 and got[0].type == R.PAYLOAD and got[0].complete and bytes(got[0].data) == b'R:late'):
                        bad('in-flight-served', 'server/request-response', 'in-flight request on stream %d answered with %s' % (self.INFL, got))
            if self.LIVE not in offending_sids and self.live_pub is not None:
                before = list(self.live_pub.requests)
                s.peer(R.enc_request_n(self.LIVE, 2))
                if self.live_pub.requests != before + [2]:
                    bad('other-streams-served', 'server/live-stream-credit', 'live publisher requests %s after REQUEST_N(2), had %s' % (self.live_pub.requests, before))
                else:
                    m3 = len(s.log)
                    self.live_pub.emit(P(b'l1'), True)
                    s.settle()
                    got = s.sent_on(self.LIVE, m3)
                    if not (len(got) == 1 and got[0].type == R.PAYLOAD and bytes(got[0].data) == b'l1' and got[0].complete):
                        bad('other-streams-served', 'server/live-stream-element', 'live stream emitted %s' % got)
            m4 = len(s.log)
            s.peer(R.enc_request(R.REQUEST_RESPONSE, 9, b'probe', b'pm'))
            got = s.sent_on(9, m4)
            if not (len(got) == 1 and got[0].type == R.PAYLOAD and got[0].complete and bytes(got[0].data) == b'R:probe' and bytes(got[0].metadata or b'') == b'pm'):
                bad('fresh-probe-served', 'server/request-response', 'probe request-response answered with %s' % got)
            s.peer(R.enc_request(R.REQUEST_STREAM, 11, b'gen', n=5))
            got = [x for x in s.sent_on(11, m4) if x.type == R.PAYLOAD and x.next]
            if [bytes(x.data) for x in got] != [b'g0', b'g1']:
                bad('fresh-probe-served', 'server/request-stream', 'probe stream produced %s' % s.sent_on(11, m4))
            # requests the endpoint itself issues afterwards (two: a hostile LEASE may have granted one)
            for k in (1, 2):
                m6 = len(s.log)
                fr = watch_future(s.w, s.ep, 'own%d' % k, s.sock.request_response(P(b'own%d' % k)))
                s.settle()
                req = [x for x in s.sent(m6) if x.type == R.REQUEST_RESPONSE]
                if len(req) != 1:
                    bad('fresh-probe-served', 'server/own-request-not-sent', 'request %d issued by the endpoint after the input: frames %s' % (k, req))
                    break
                s.peer(R.enc_payload(req[0].sid, b'R:own', complete=True))
                if fr['state'] != 'result' or fr['value'] != (b'R:own', b''):
                    bad('fresh-probe-served', 'server/own-request-response', 'own request %d: %s %s' % (k, fr['state'], fr['value']))
        else:
            if self.INFL not in offending_sids:
                s.peer(R.enc_payload(self.INFL, b'R:late', complete=True))
                if self.infl_f['state'] != 'result' or self.infl_f['value'] != (b'R:late', b''):
                    bad('in-flight-served', 'client/request-response', 'in-flight awaitable: %s %s' % (self.infl_f['state'], self.infl_f['value']))
            if self.LIVE not in offending_sids:
                n = len(self.live_sub.signals)
                s.peer(R.enc_payload(self.LIVE, b'l1', complete=True))
                new = self.live_sub.signals[n:]
                if new != [('N', (b'l1', b''), True)]:
                    bad('other-streams-served', 'client/live-stream-element', 'live subscriber got %s' % (new,))
            fr = watch_future(s.w, s.ep, 'probe', s.sock.request_response(P(b'probe')))
            s.settle()
            req = [x for x in s.sent(m2) if x.type == R.REQUEST_RESPONSE and bytes(x.data or b'') == b'probe']
            if len(req) != 1:
                bad('fresh-probe-served', 'client/request-not-sent', 'probe request frames: %s' % req)
            else:
                s.peer(R.enc_payload(req[0].sid, b'R:probe', complete=True))
                if fr['state'] != 'result' or fr['value'] != (b'R:probe', b''):
                    bad('fresh-probe-served', 'client/request-response', 'probe awaitable: %s %s' % (fr['state'], fr['value']))
            m7 = len(s.log)
            sub2 = RecSubscriber(s.w, s.ep, 'probe2')
            s.sock.request_stream(P(b'probe2')).initial_request_n(3).subscribe(sub2)
            s.settle()
            req2 = [x for x in s.sent(m7) if x.type == R.REQUEST_STREAM]
            if len(req2) != 1:
                bad('fresh-probe-served', 'client/second-request-not-sent', 'second probe (request-stream) frames: %s' % req2)
            else:
                s.peer(R.enc_payload(req2[0].sid, b'p2', complete=True))
                if sub2.elements() != [(b'p2', b'')]:
                    bad('fresh-probe-served', 'client/request-stream', 'second probe subscriber got %s' % (sub2.signals,))
            # the peer can still open streams towards us
            m5 = len(s.log)
            s.peer(R.enc_request(R.REQUEST_RESPONSE, 40, b'sp'))
            got = s.sent_on(40, m5)
            if not (len(got) == 1 and got[0].type == R.PAYLOAD and bytes(got[0].data) == b'R:sp'):
                bad('fresh-probe-served', 'client/serves-peer-request', 'peer-initiated probe answered with %s' % got)
        return v

    def teardown(self):
        self.s.teardown()


def judge_reaction(bench, offending_sids, strict, tag):
    """Frames emitted in reaction: confined to the offending stream(s) or stream 0; when `strict` (item known to be
    hostile) only nothing or ERROR."""
    v = []
    for f in bench.reaction():
        if f.sid not in offending_sids and f.sid != 0:
            v.append(('C12.reaction-confined', 'C12.reaction-confined | %s | %s-on-other-stream' % (tag, f.name),
                      'reaction %r on stream %d, offending streams %s' % (f, f.sid, sorted(offending_sids))))
        elif strict and f.type != R.ERROR and not (f.type == R.KEEPALIVE and not (f.flags & R.F_RESPOND)):
            v.append(('C12.nothing-or-error', 'C12.nothing-or-error | %s | %s' % (tag, f.name), 'reaction to hostile input: %r' % f))
    return v


def run_guarded(fn, tag):
    try:
        arm_watchdog(20)
        return fn()
    except Livelock as e:
        return [('C12.terminates', 'C12.terminates | livelock | %s' % tag, str(e))]
    except Watchdog as e:
        return [('C12.terminates', 'C12.terminates | watchdog | %s' % tag, str(e))]
    except MemoryError as e:
        return [('C12.terminates', 'C12.terminates | memory | %s' % tag, str(e))]
    finally:
        disarm_watchdog()


# ---- (i) header space ---------------------------------------------------------------------------------------------------
def header_case(role, flavour, t, flags, sidname, body):
    def go():
        b_ = Bench(role, flavour)
        try:
            sid = b_.sids[sidname]
            raw = sid.to_bytes(4, 'big') + (((t & 0x3F) << 10) | flags).to_bytes(2, 'big') + body
            b_.s.peer(raw)
            tag = '%s/%s type=%s' % (role, flavour, R.NAMES.get(t, 'unknown'))
            v = judge_reaction(b_, {sid}, False, tag)
            v += b_.probes({sid}, tag)
            return v, tuple((f.type, f.sid == sid) for f in b_.reaction())
        finally:
            b_.teardown()

    r = run_guarded(go, '%s/%s type=%s' % (role, flavour, R.NAMES.get(t, 'unknown')))
    if isinstance(r, list):
        return r, 'no-termination'
    return r


# ---- (ii) hostile items ----------------------------------------------------------------------------------------------
def hostile_items(role, flavour):
    """name -> (list of raw frames or ('bytes', data), offending sids, strict)"""
    own_unknown, peer_unknown = (20, 21) if role == 'server' else (21, 20)
    live, fin = (3, 5) if role == 'server' else (1, 3)
    it = {}
    for sid, nm in ((peer_unknown, 'unknown'), (fin, 'finished')):
        it['payload-%s' % nm] = ([R.enc_payload(sid, b'x')], {sid}, True)
        it['request-n-%s' % nm] = ([R.enc_request_n(sid, 3)], {sid}, True)
        it['cancel-%s' % nm] = ([R.enc_cancel(sid)], {sid}, True)
        it['error-%s' % nm] = ([R.enc_error(sid, 0x201, b'x')], {sid}, True)
    it['orphan-fragment'] = ([R.enc_payload(peer_unknown, b'part', follows=True)], {peer_unknown}, True)
    it['orphan-fragment-then-tail'] = ([R.enc_payload(peer_unknown, b'p1', follows=True), R.enc_payload(peer_unknown, b'p2')], {peer_unknown}, True)
    it['request-n-zero-live'] = ([R.enc_request_n(live, 0)], {live}, True)
    it['error-unknown-code-live'] = ([R.enc_error(live, 0x999, b'x')], {live}, True)
    it['error-unknown-code-0'] = ([R.enc_error(0, 0x999, b'x')], {0}, True)
    it['duplicate-setup'] = ([R.enc_setup()], {0}, True)
    it['resume'] = ([R.enc_resume()], {0}, True)
    it['resume-ok'] = ([R.enc_resume_ok(3)], {0}, True)
    it['lease'] = ([R.enc_lease(1000, 1)], {0}, True)  # nobody negotiated leases on this connection
    it['lease-zero'] = ([R.enc_lease(0, 0)], {0}, True)
    it['lease-count0'] = ([R.enc_lease(60000, 0)], {0}, True)
    it['keepalive-respond'] = ([R.enc_keepalive(True, b'ka')], {0}, True)
    it['keepalive-norespond'] = ([R.enc_keepalive(False, b'ka')], {0}, True)
    it['metadata-push-nonzero-stream'] = ([R.enc_metadata_push(b'mp', sid=peer_unknown)], {peer_unknown}, True)
    it['fragment-type-switch'] = ([R.enc_request(R.REQUEST_RESPONSE, peer_unknown + 2, b'a', follows=True),
                                   R.enc_request(R.REQUEST_STREAM, peer_unknown + 2, b'b', n=1)], {peer_unknown + 2}, False)
    if role == 'server':
        it['request-on-live-id'] = ([R.enc_request(R.REQUEST_RESPONSE, live, b'dup')], {live}, True)
        it['request-stream-n0'] = ([R.enc_request(R.REQUEST_STREAM, 31, b'gen', n=0)], {31}, False)
        it['request-unimplemented-channel'] = ([R.enc_request(R.REQUEST_CHANNEL, 33, b'c', n=1)], {33}, True)
    else:
        it['error-non-utf8-live'] = ([R.enc_error(live, 0x201, b'\xff\xfe\xfd')], {live}, False)
        it['error-non-utf8-inflight-other'] = ([R.enc_error(fin, 0x201, b'\xff\xfe')], {fin}, True)
    # raw bytes
    junk = [bytes(x) for n in (1, 2) for x in itertools.product((0x00, 0x01, 0xFF), repeat=n)]
    junk += [b'\x00\x00\x00', b'\x00\x00\x05junk!', b'\x00\x00\x06\x00\x00\x00\x00\xfc\x00', b'\x00\x00\x01\x2a']
    for j in junk:
        it['raw-' + j.hex()] = (('bytes', j), set(), True)
    if flavour not in ('tcp', 'quic'):
        it['empty-message'] = (('bytes', b''), set(), True)
    return it


def pad_to_boundary(data):
    """Bytes the hostile peer must still send so that the byte stream is frame-aligned again."""
    buf = bytes(data)
    pos = 0
    while True:
        rest = len(buf) - pos
        if rest == 0:
            return buf
        if rest < 3:
            buf += b'\x00' * (3 - rest)
            continue
        ln = int.from_bytes(buf[pos:pos + 3], 'big')
        if pos + 3 + ln > len(buf):
            buf += b'\x00' * (pos + 3 + ln - len(buf))
        pos += 3 + ln


def hostile_case(role, flavour, names):
    tag = '%s/%s' % (role, flavour)

    def go():
        b_ = Bench(role, flavour)
        try:
            its = hostile_items(role, flavour)
            off = set()
            strict = True
            for nm in names:
                frames, sids, st = its[nm]
                off |= sids
                strict = strict and st
                if isinstance(frames, tuple):
                    data = frames[1]
                    if flavour in ('tcp', 'quic'):
                        data = pad_to_boundary(data)
                    b_.s.peer_bytes(data)
                else:
                    for raw in frames:
                        b_.s.peer(raw)
            t2 = tag + ' ' + '+'.join(n if not n.startswith('raw-') else 'raw' for n in names)
            v = judge_reaction(b_, off, strict, t2)
            v += b_.probes(off, t2)
            return v, tuple((f.type, f.sid) for f in b_.reaction())
        finally:
            b_.teardown()

    r = run_guarded(go, tag + ' ' + '+'.join(n if not n.startswith('raw-') else 'raw' for n in names))
    if isinstance(r, list):
        return r, 'no-termination'
    return r


# ---- (iii) failing application code ------------------------------------------------------------------------------------
def app_failure_cases(role):
    """name -> builder(bench-kwargs, trigger(bench) -> offending sids)."""
    cases = {}

    def raising(kind, after_await):
        async def f_async(*a, **k):
            import asyncio
            if after_await:
                await asyncio.sleep(0)
            raise AppRaise('handler %s raises' % kind)
        return f_async

    if role == 'server':
        trig = {'request_response': (R.enc_request(R.REQUEST_RESPONSE, 13, b'boom'), 13),
                'request_stream': (R.enc_request(R.REQUEST_STREAM, 13, b'boom', n=2), 13),
                'request_channel': (R.enc_request(R.REQUEST_CHANNEL, 13, b'boom', n=2), 13),
                'request_fire_and_forget': (R.enc_request(R.REQUEST_FNF, 13, b'boom'), 13),
                'on_metadata_push': (R.enc_metadata_push(b'boom'), 0)}
        for meth, (raw, sid) in trig.items():
            for aw in (False, True):
                def beh(h, p, meth=meth, aw=aw, orig=None):
                    if bytes(p.data or b'') == b'boom' or bytes(p.metadata or b'') == b'boom':
                        if aw:
                            async def later():
                                import asyncio
                                await asyncio.sleep(0)
                                raise AppRaise('handler %s raises after await' % meth)
                            return later()
                        raise AppRaise('handler %s raises' % meth)
                    return None
                cases['handler-%s-raises%s' % (meth, '-after-await' if aw else '')] = (meth, beh, raw, sid)
    return cases


EXC_SHAPES = ('int-arg', 'exc-arg', 'no-args', 'bytes-arg', 'non-ascii', 'none-arg', 'tuple-arg', 'long-text',
              'os-error', 'timeout-error', 'transport-error', 'protocol-error', 'application-error')  # the last five: what a handler gets from an upstream call


def make_exc(shape):
    if shape in ('transport-error', 'protocol-error', 'application-error'):
        from rsocket.exceptions import RSocketTransportError, RSocketProtocolError, RSocketApplicationError
        from rsocket.error_codes import ErrorCode
        return {'transport-error': lambda: RSocketTransportError('upstream connection lost'),
                'protocol-error': lambda: RSocketProtocolError(ErrorCode.REJECTED, data='upstream rejected'),
                'application-error': lambda: RSocketApplicationError('upstream application error')}[shape]()
    if shape == 'os-error':
        return ConnectionResetError('upstream reset')
    if shape == 'timeout-error':
        return TimeoutError('upstream timeout')
    return {'text': lambda: AppRaise('handler raises'), 'int-arg': lambda: KeyError(7), 'exc-arg': lambda: RuntimeError(ValueError('inner')),
            'no-args': lambda: Exception(), 'bytes-arg': lambda: Exception(b'\xff\xfebytes'), 'non-ascii': lambda: Exception('h\u00e9llo \u2713'),
            'none-arg': lambda: Exception(None), 'tuple-arg': lambda: KeyError(('a', 1)), 'long-text': lambda: Exception('x' * 70000)}[shape]()


def app_case(role, flavour, name):
    tag = '%s/%s %s' % (role, flavour, name)
    shape = 'text'
    if '@' in name:
        name, shape = name.split('@')

    def go():
        import asyncio
        from rsocket.helpers import create_future, create_error_future
        extra = {}
        trigger = None
        post = None
        off = set()
        if role == 'server':
            base_rs, base_rr = None, None

            def wrap(meth, special):
                def beh(h, p):
                    d = bytes(p.data or b'') or bytes(p.metadata or b'')
                    if d.startswith(b'boom'):
                        return special(h, p)
                    return Bench_default[meth](h, p)
                return beh

            sid = 13
            mk = {}
            if name.startswith('handler-'):
                meth = name.split('-')[1]
                aw = name.endswith('after-await')

                def special(h, p):
                    if aw:
                        async def later():
                            await asyncio.sleep(0)
                            raise make_exc(shape)
                        return later()
                    raise make_exc(shape)

                raw = {'request_response': R.enc_request(R.REQUEST_RESPONSE, sid, b'boom'),
                       'request_stream': R.enc_request(R.REQUEST_STREAM, sid, b'boom', n=2),
                       'request_channel': R.enc_request(R.REQUEST_CHANNEL, sid, b'boom', n=2),
                       'request_fire_and_forget': R.enc_request(R.REQUEST_FNF, sid, b'boom'),
                       'on_metadata_push': R.enc_metadata_push(b'boom')}[meth]
                extra[meth] = ('special', special)
                off = {0} if meth == 'on_metadata_push' else {sid}
                frames = [raw]
            elif name.startswith('returns-'):
                # the handler returns something that is not what the engine expects (None, a number, a tuple of the wrong shape)
                _, what, meth = name.split('-', 2)
                junk = {'none': None, 'junk': 42, 'shorttuple': (None,)}[what]
                extra[meth] = ('special', lambda h, p: junk)
                raw = {'request_response': R.enc_request(R.REQUEST_RESPONSE, sid, b'boom'),
                       'request_stream': R.enc_request(R.REQUEST_STREAM, sid, b'boom', n=2),
                       'request_channel': R.enc_request(R.REQUEST_CHANNEL, sid, b'boom', n=2)}[meth]
                frames, off = [raw], {sid}
            elif name == 'on_error-raises':
                def bad_on_error(h, p):
                    raise make_exc(shape)
                extra['on_error'] = ('always', bad_on_error)
                frames, off = [R.enc_error(0, 0x201, b'boom from the peer')], {0}
            elif name == 'future-fails':
                extra['request_response'] = ('special', lambda h, p: create_error_future(make_exc(shape) if shape != 'text' else RuntimeError('late failure')))
                frames, off = [R.enc_request(R.REQUEST_RESPONSE, sid, b'boom')], {sid}
            elif name in ('future-cancelled', 'future-cancelled-later'):
                # the handler's own computation was cancelled: the future it returns is (or becomes) cancelled
                box = {}

                def cancelled_future(h, p):
                    box['f'] = create_future()
                    if name == 'future-cancelled':
                        box['f'].cancel()
                    return box['f']

                extra['request_response'] = ('special', cancelled_future)
                frames, off = [R.enc_request(R.REQUEST_RESPONSE, sid, b'boom')], {sid}
                if name == 'future-cancelled-later':
                    post = lambda: box['f'].cancel()
            elif name == 'publisher-errors':
                box = {}

                def mkpub(h, p):
                    box['pub'] = RecPublisher(h.w, h.ep, 'errpub')
                    return box['pub']

                extra['request_stream'] = ('special', mkpub)
                frames, off = [R.enc_request(R.REQUEST_STREAM, sid, b'boom', n=2)], {sid}
                post = lambda: box['pub'].error(make_exc(shape))
            elif name.startswith('publisher-raises-'):
                where = name.split('-')[2]
                extra['request_stream'] = ('special', lambda h, p: RecPublisher(h.w, h.ep, 'badpub', raise_in=(where,)))
                frames, off = [R.enc_request(R.REQUEST_STREAM, sid, b'boom', n=2), R.enc_request_n(sid, 1), R.enc_cancel(sid)], {sid}
            elif name == 'generator-raises':
                from rsocket.streams.stream_from_generator import StreamFromGenerator

                def gen():
                    yield P(b'ok'), False
                    raise AppRaise('generator raises')

                extra['request_stream'] = ('special', lambda h, p: StreamFromGenerator(gen))
                frames, off = [R.enc_request(R.REQUEST_STREAM, sid, b'boom', n=5)], {sid}
            elif name in ('generator-factory-raises', 'async-generator-factory-raises'):
                # the source cannot even be opened: the factory handed to the library raises when it is called
                def factory():
                    raise AppRaise('generator factory raises')

                if name.startswith('async'):
                    from rsocket.streams.stream_from_async_generator import StreamFromAsyncGenerator as Src
                else:
                    from rsocket.streams.stream_from_generator import StreamFromGenerator as Src
                extra['request_stream'] = ('special', lambda h, p: Src(factory))
                frames, off = [R.enc_request(R.REQUEST_STREAM, sid, b'boom', n=5)], {sid}
            elif name == 'async-generator-raises':
                from rsocket.streams.stream_from_async_generator import StreamFromAsyncGenerator

                async def agen():
                    yield P(b'ok'), False
                    raise AppRaise('async generator raises')

                extra['request_stream'] = ('special', lambda h, p: StreamFromAsyncGenerator(agen))
                frames, off = [R.enc_request(R.REQUEST_STREAM, sid, b'boom', n=5)], {sid}
            elif name.startswith('channel-subscriber-raises-'):
                where = name.split('-')[3]
                extra['request_channel'] = ('special', lambda h, p: (RecPublisher(h.w, h.ep, 'chpub'),
                                                                     RecSubscriber(h.w, h.ep, 'chsub', raise_in=(where,), request_on_subscribe=3)))
                frames = [R.enc_request(R.REQUEST_CHANNEL, sid, b'boom', n=2), R.enc_payload(sid, b'u1'),
                          R.enc_payload(sid, b'', complete=True, next=False) if where != 'E' else R.enc_error(sid, 0x201, b'e')]
                off = {sid}
            elif name.startswith('router-raises-'):
                from rsocket.routing.request_router import RequestRouter
                from rsocket.routing.routing_request_handler import RoutingRequestHandler
                from rsocket.extensions.helpers import composite, route
                meth = name[len('router-raises-'):]
                router = RequestRouter()
                kind = {'request_response': 'response', 'request_stream': 'stream', 'request_channel': 'channel',
                        'request_fire_and_forget': 'fire_and_forget', 'on_metadata_push': 'metadata_push'}[meth]

                @getattr(router, kind)('explode')
                async def exploding(payload):
                    raise AppRaise('routed handler raises')

                routing = RoutingRequestHandler(router)
                md = bytes(composite(route('explode')))
                extra[meth] = ('special', lambda h, p, routing=routing, meth=meth: getattr(routing, meth)(p))
                raw = {'request_response': R.enc_request(R.REQUEST_RESPONSE, sid, b'boom', md),
                       'request_stream': R.enc_request(R.REQUEST_STREAM, sid, b'boom', md, n=2),
                       'request_channel': R.enc_request(R.REQUEST_CHANNEL, sid, b'boom', md, n=2),
                       'request_fire_and_forget': R.enc_request(R.REQUEST_FNF, sid, b'boom', md),
                       'on_metadata_push': R.enc_metadata_push(b'boom' + md)}[meth]
                if meth == 'on_metadata_push':
                    extra[meth] = ('special', lambda h, p, routing=routing: routing.on_metadata_push(P(None, bytes(p.metadata)[4:])))
                frames, off = [raw], ({0} if meth == 'on_metadata_push' else {sid})
            elif name.startswith('router-garbage:'):
                # a routed request whose metadata is not valid composite metadata: it must fail alone
                from rsocket.routing.request_router import RequestRouter
                from rsocket.routing.routing_request_handler import RoutingRequestHandler
                from rsocket.extensions.helpers import composite, route
                _, gk, meth = name.split(':')
                router = RequestRouter()
                kind = {'request_response': 'response', 'request_stream': 'stream', 'request_channel': 'channel',
                        'request_fire_and_forget': 'fire_and_forget', 'on_metadata_push': 'metadata_push'}[meth]

                @getattr(router, kind)('fine')
                async def fine(payload):
                    return None

                routing = RoutingRequestHandler(router)
                good = bytes(composite(route('fine')))
                md = {'truncated-entry': good[:-2], 'length-past-end': good[:1] + b'\x00\xff\xff' + good[4:], 'lone-byte': b'\xfe',
                      'zero-length-name': b'\x00\x00\x00\x00', 'non-utf8-route': bytes(composite(route(b'\xff\xfe\xfd'))) if False else good[:-4] + b'\xff\xfe\xfd\xfc',
                      'tag-length-past-end': good[:4] + b'\xf0' + good[5:], 'huge-custom-name': b'\x7f' + b'x' * 20,
                      # routing items with empty tags (a tag is a length byte + that many bytes; length 0 is encodable)
                      'zero-length-tag-first': good[:1] + (6).to_bytes(3, 'big') + b'\x00\x04fine', 'zero-length-tag-last': good[:1] + (6).to_bytes(3, 'big') + b'\x04fine\x00',
                      'only-zero-length-tags': good[:1] + (3).to_bytes(3, 'big') + b'\x00\x00\x00', 'empty-routing-item': good[:1] + (0).to_bytes(3, 'big')}[gk]
                extra[meth] = ('special', lambda h, p, routing=routing, meth=meth: getattr(routing, meth)(p))
                raw = {'request_response': R.enc_request(R.REQUEST_RESPONSE, sid, b'boom', md),
                       'request_stream': R.enc_request(R.REQUEST_STREAM, sid, b'boom', md, n=2),
                       'request_channel': R.enc_request(R.REQUEST_CHANNEL, sid, b'boom', md, n=2),
                       'request_fire_and_forget': R.enc_request(R.REQUEST_FNF, sid, b'boom', md),
                       'on_metadata_push': R.enc_metadata_push(b'boom' + md)}[meth]
                if meth == 'on_metadata_push':
                    extra[meth] = ('special', lambda h, p, routing=routing: routing.on_metadata_push(P(None, bytes(p.metadata)[4:])))
                frames, off = [raw], ({0} if meth == 'on_metadata_push' else {sid})
            elif name.startswith('rx3-') or name.startswith('rx4-'):
                if name.startswith('rx3-'):
                    import rx as RX
                    from rsocket.rx_support.rx_handler_adapter import RxHandlerAdapter as Adapter
                    from rsocket.rx_support.rx_handler import BaseRxHandler as Base
                else:
                    import reactivex as RX
                    from rsocket.reactivex.reactivex_handler_adapter import ReactivexHandlerAdapter as Adapter
                    from rsocket.reactivex.reactivex_handler import BaseReactivexHandler as Base
                what = name.split('-', 1)[1]

                class H(Base):
                    async def request_stream(self, payload):
                        if what == 'observable-errors-at-once':
                            return RX.throw(RuntimeError('rx boom'))
                        return RX.concat(RX.of(P(b'ok')), RX.throw(RuntimeError('rx boom')))

                    async def request_response(self, payload):
                        return RX.throw(RuntimeError('rx boom'))

                adapter = Adapter(H())
                if what == 'response-errors':
                    extra['request_response'] = ('special', lambda h, p: adapter.request_response(p))
                    frames, off = [R.enc_request(R.REQUEST_RESPONSE, sid, b'boom')], {sid}
                else:
                    extra['request_stream'] = ('special', lambda h, p: adapter.request_stream(p))
                    frames, off = [R.enc_request(R.REQUEST_STREAM, sid, b'boom', n=5)], {sid}
            else:
                raise ValueError(name)
            b_ = Bench('server', flavour)
            # install the special behaviours on top of the bench's default ones
            h = b_.s.handler
            for meth, (kind_, special) in extra.items():
                orig = h.beh.get(meth)
                if kind_ == 'always':
                    h.beh[meth] = special
                    continue

                def beh(hh, p, special=special, orig=orig):
                    d = bytes(p.data or b'') or bytes(p.metadata or b'')
                    if d.startswith(b'boom'):
                        return special(hh, p)
                    if orig is None:
                        return None
                    return orig(hh, p)

                h.beh[meth] = beh
            b_.mark = len(b_.s.log)
            for raw in frames:
                b_.s.peer(raw)
            if 'post' in dir() and post is not None:
                post()
                b_.s.settle()
        else:
            # client side: application subscriber of a requested stream raises in each callback
            where = name.split('-')[-1]
            b_ = Bench('client', flavour)
            s = b_.s
            sub = RecSubscriber(s.w, s.ep, 'badsub', raise_in=(where,))
            try:
                s.sock.request_stream(P(b'boom')).initial_request_n(3).subscribe(sub)
            except AppRaise:
                pass
            s.settle()
            req = [x for x in s.sent(b_.mark) if x.type == R.REQUEST_STREAM]
            sid = req[0].sid if req else 7
            off = {sid}
            if req:
                s.peer(R.enc_payload(sid, b'e1'))
                s.peer(R.enc_payload(sid, b'', complete=True, next=False) if where != 'E' else R.enc_error(sid, 0x201, b'e'))
        try:
            v = judge_reaction(b_, off, False, tag)
            for f in b_.reaction():
                if f.sid in off and f.sid != 0 and role == 'server' and f.type not in (R.ERROR, R.PAYLOAD, R.REQUEST_N, R.CANCEL):
                    v.append(('C12.nothing-or-error', 'C12.nothing-or-error | %s | %s' % (tag, f.name), 'reaction %r' % f))
            v += b_.probes(off, tag)
            return v, tuple((f.type, f.sid) for f in b_.reaction())
        finally:
            b_.teardown()

    r = run_guarded(go, tag)
    if isinstance(r, list):
        return r, 'no-termination'
    return r


Bench_default = {}

APP_CASES_SERVER = (['handler-%s-raises%s' % (m, a) for m in ('request_response', 'request_stream', 'request_channel',
                                                             'request_fire_and_forget', 'on_metadata_push') for a in ('', '-after-await')]
                    + ['future-fails', 'future-cancelled', 'future-cancelled-later', 'publisher-raises-subscribe', 'publisher-raises-request', 'publisher-raises-cancel',
                       'generator-raises', 'async-generator-raises', 'generator-factory-raises', 'async-generator-factory-raises', 'channel-subscriber-raises-S', 'channel-subscriber-raises-N',
                       'channel-subscriber-raises-C', 'channel-subscriber-raises-E']
                    + ['router-raises-%s' % m for m in ('request_response', 'request_stream', 'request_channel', 'request_fire_and_forget', 'on_metadata_push')]
                    + ['router-garbage:%s:%s' % (g, m) for g in ('truncated-entry', 'length-past-end', 'lone-byte', 'zero-length-name', 'non-utf8-route', 'tag-length-past-end', 'huge-custom-name',
                                                                      'zero-length-tag-first', 'zero-length-tag-last', 'only-zero-length-tags', 'empty-routing-item')
                       for m in ('request_response', 'request_stream', 'request_channel', 'request_fire_and_forget', 'on_metadata_push')]
                    + ['%s-%s' % (a, wh) for a in ('rx3', 'rx4') for wh in ('observable-errors-at-once', 'observable-errors-after-one', 'response-errors')]
                    + ['publisher-errors', 'on_error-raises']
                    + ['returns-%s-%s' % (wh, m) for wh in ('none', 'junk') for m in ('request_response', 'request_stream', 'request_channel')]
                    + ['returns-shorttuple-request_channel']
                    + ['%s@%s' % (c, sh) for sh in EXC_SHAPES for c in ('handler-request_response-raises', 'handler-request_stream-raises-after-await',
                                                                         'handler-request_channel-raises', 'handler-request_fire_and_forget-raises',
                                                                         'handler-on_metadata_push-raises-after-await', 'future-fails', 'publisher-errors')])
APP_CASES_CLIENT = ['stream-subscriber-raises-S', 'stream-subscriber-raises-N', 'stream-subscriber-raises-C', 'stream-subscriber-raises-E']


def lease_hostile_cases(part):
    """A client that honours leases, with requests parked in its lease queue, receives LEASE frames it cannot fully act on
    (expired on arrival, zero permits, fewer permits than parked requests, huge values): handling terminates, the peer's own
    request is still served, and a proper LEASE afterwards releases the parked requests in order."""
    from rsocket.helpers import create_future
    hostile = {'ttl0': R.enc_lease(0, 10), 'count0': R.enc_lease(60000, 0), 'fewer-than-parked': R.enc_lease(60000, 1),
               'huge': R.enc_lease(0x7FFFFFFF, 0x7FFFFFFF), 'ttl0-count0': R.enc_lease(0, 0)}
    for flavour in ('tcp', 'msg'):
        for name, raw in hostile.items():
            for parked in (1, 2, 3):
                tag = 'client/%s lease-%s parked=%d' % (flavour, name, parked)
                wit = {'kind': 'lease-hostile', 'flavour': flavour, 'name': name, 'parked': parked}

                def go():
                    s = Solo('client', flavour, honor_lease=True, beh={'request_response': lambda h, p: create_future(P(b'pong'))})
                    try:
                        v = []
                        s.peer(R.enc_lease(60000, 1))
                        futs = [watch_future(s.w, s.ep, 'rr%d' % i, s.sock.request_response(P(b'q%d' % i))) for i in range(parked + 1)]
                        s.settle()
                        first = [f for f in s.sent() if f.type == R.REQUEST_RESPONSE]
                        if len(first) != 1:
                            return [('C12.harness', 'C12.harness | lease-setup', 'expected one request on the wire, saw %s' % first)], 'setup'
                        mark = len(s.log)
                        s.peer(raw)
                        alive = s.tasks_alive()
                        if not alive['receiver'] or not alive['sender']:
                            v.append(('C12.tasks-alive', 'C12.tasks-alive | client-lease/%s | %s' % ('+'.join(k for k, a in alive.items() if not a), name), 'endpoint tasks after the LEASE: %s' % alive))
                            return v, 'dead'
                        s.peer(R.enc_request(R.REQUEST_RESPONSE, 2, b'ping'))
                        got = s.sent_on(2, mark)
                        if not (len(got) == 1 and got[0].type == R.PAYLOAD and bytes(got[0].data) == b'pong'):
                            v.append(('C12.fresh-probe-served', 'C12.fresh-probe-served | client-lease/serves-peer-request | %s' % name, 'peer request after the LEASE answered with %s' % got))
                        s.peer(R.enc_lease(60000, 10))
                        reqs = [f for f in s.sent() if f.type == R.REQUEST_RESPONSE]
                        if [bytes(f.data) for f in reqs] != [b'q%d' % i for i in range(parked + 1)]:
                            v.append(('C12.fresh-probe-served', 'C12.fresh-probe-served | client-lease/parked-released | %s' % name,
                                      'after a proper LEASE the requests on the wire are %s' % [bytes(f.data) for f in reqs]))
                        else:
                            for f in reqs:
                                s.peer(R.enc_payload(f.sid, b'R', complete=True))
                            if any(x['state'] != 'result' for x in futs):
                                v.append(('C12.fresh-probe-served', 'C12.fresh-probe-served | client-lease/answers | %s' % name, 'awaitables: %s' % [x['state'] for x in futs]))
                        return v, 'ok'
                    finally:
                        s.teardown()

                r = run_guarded(go, tag)
                v, outc = (r, 'no-termination') if isinstance(r, list) else r
                part.evaluations += 1
                part.traces += 1
                part.transitions += 4
                part.state(('lease-hostile', flavour, name, parked, outc))
                part.nontriv(('lease-hostile', flavour, name, parked))
                for rule, sig, detail in v:
                    part.violate(rule, sig, detail, wit)
    part.sample({'kind': 'lease-hostile', 'leases': sorted(hostile)}, limit=1)


def make_units(tier):
    units = [{'kind': 'lease-hostile', 'role': 'client', 'flavour': 'tcp', 'tier': tier}]
    combos = (('server', 'tcp'), ('client', 'msg')) if tier == 'quick' else (('server', 'tcp'), ('server', 'msg'), ('client', 'tcp'), ('client', 'msg'))
    for role, flavour in combos:
        for t in range(64):
            units.append({'kind': 'header', 'role': role, 'flavour': flavour, 'type': t, 'tier': tier})
    for role in ('server', 'client'):
        for flavour in ('tcp', 'msg'):
            names = sorted(hostile_items(role, flavour))
            for first in names:
                units.append({'kind': 'hostile', 'role': role, 'flavour': flavour, 'first': first, 'tier': tier})
            units.append({'kind': 'app', 'role': role, 'flavour': flavour, 'tier': tier})
    # every other transport class: each hostile item alone and after a junk / empty message (quick); all pairs (thorough)
    for role, flavour in EXTRA_ENDS:
        names = sorted(hostile_items(role, flavour))
        if tier == 'quick':
            units.append({'kind': 'hostile', 'role': role, 'flavour': flavour, 'first': None, 'tier': tier})
        else:
            for first in names:
                if first.startswith('raw-') and first not in ('raw-00', 'raw-000000', 'raw-0000012a', 'raw-ff'):
                    continue  # sized to keep the thorough tier inside its budget: raw junk as the first item is covered on tcp / msg
                units.append({'kind': 'hostile', 'role': role, 'flavour': flavour, 'first': first, 'tier': 'quick'})
        units.append({'kind': 'app', 'role': role, 'flavour': flavour, 'tier': tier})
    return units


EXTRA_ENDS = (('server', 'wsk'), ('server', 'quart'), ('server', 'h3'), ('server', 'chan'), ('client', 'chan'),
              ('server', 'quic'), ('client', 'quic'))


def bounds(tier):
    return {'header_space': '64 types x %d flag patterns x 5 stream ids x bodies' % len(list(flag_patterns(tier))),
            'hostile_items': sorted(n if not n.startswith('raw-') else 'raw-*' for n in set(hostile_items('server', 'msg')) | set(hostile_items('client', 'msg'))),
            'hostile_sequence_length': 2 if tier == 'quick' else 3,
            'app_failure_cases': APP_CASES_SERVER + APP_CASES_CLIENT}


def run_unit(unit, part):
    tier = unit['tier']
    if unit['kind'] == 'lease-hostile':
        return lease_hostile_cases(part)
    role, flavour = unit['role'], unit['flavour']
    if unit['kind'] == 'header':
        t = unit['type']
        for flags in flag_patterns(tier):
            for sidname in ('zero', 'own-unknown', 'peer-unknown', 'live', 'finished'):
                for body in bodies(t, tier):
                    v, outc = header_case(role, flavour, t, flags, sidname, body)
                    part.evaluations += 1
                    part.traces += 1
                    part.transitions += 1
                    part.outcome((t, outc))
                    part.state((role, t, flags & 0x3E0, sidname, len(body), outc))
                    if t not in R.NAMES or len(body) < len(valid_body(t)):
                        part.nontriv((role, flavour, t, flags, sidname, body))
                    for rule, sig, detail in v:
                        part.violate(rule, sig, detail + ' [type=%d flags=0x%03x sid=%s body=%s]' % (t, flags, sidname, body.hex()),
                                     {'kind': 'header', 'role': role, 'flavour': flavour, 'type': t, 'flags': flags, 'sid': sidname, 'body': body.hex()})
        part.sample({'kind': 'header', 'role': role, 'link': flavour, 'type': t}, limit=1)
    elif unit['kind'] == 'hostile':
        names = sorted(hostile_items(role, flavour))
        if unit['first'] is None:
            lead = [n for n in ('raw-00', 'raw-000000', 'raw-0000012a', 'empty-message') if n in names]
            seqs = [(n,) for n in names] + [(l, n) for l in lead for n in names if not n.startswith('raw-')]
        else:
            seqs = [(unit['first'],)] + [(unit['first'], n2) for n2 in names]
        if tier == 'thorough':
            seqs += [(unit['first'], n2, n3) for n2 in names if not n2.startswith('raw-') for n3 in names if not n3.startswith('raw-')]
        for seq in seqs:
            v, outc = hostile_case(role, flavour, seq)
            part.evaluations += 1
            part.traces += 1
            part.transitions += len(seq)
            part.outcome((seq[0][:8], outc))
            part.state((role, flavour, seq, outc))
            part.nontriv((role, flavour, seq))
            for rule, sig, detail in v:
                part.violate(rule, sig, detail, {'kind': 'hostile', 'role': role, 'flavour': flavour, 'seq': list(seq)})
        part.sample({'kind': 'hostile', 'role': role, 'link': flavour, 'first': unit['first'] or 'each item alone / after junk'}, limit=1)
    else:
        for name in (APP_CASES_SERVER if role == 'server' else APP_CASES_CLIENT):
            v, outc = app_case(role, flavour, name)
            part.evaluations += 1
            part.traces += 1
            part.transitions += 1
            part.outcome((name, outc))
            part.state((role, flavour, name, outc))
            part.nontriv((role, flavour, name))
            for rule, sig, detail in v:
                part.violate(rule, sig, detail, {'kind': 'app', 'role': role, 'flavour': flavour, 'name': name})


def replay(rec):
    w = rec['witness']
    if w['kind'] == 'header':
        v, outc = header_case(w['role'], w['flavour'], w['type'], w['flags'], w['sid'], bytes.fromhex(w['body']))
    elif w['kind'] == 'hostile':
        v, outc = hostile_case(w['role'], w['flavour'], tuple(w['seq']))
    else:
        v, outc = app_case(w['role'], w['flavour'], w['name'])
    print('reaction:', outc)
    for x in v:
        print('violation:', x)
    return bool(v)
