"""C13 Stream ids: explicit-state search (complete reachable graph) of the real StreamControl on a reduced id space,
differential against a reference allocator; bounded history search near the 31-bit wrap; two-endpoint wire part."""
import copy
from collections import deque

RULE = ('GRAPH: every reachable (current id, active-id set) state of the real StreamControl with the maximum id lowered '
        'to 2^k-1, every operation in every state, compared step by step with a reference allocator; distinct = canonical '
        'vars(StreamControl); non-trivial = state with >=1 active id in which the next candidate id is active or 0 '
        '(allocation has to skip) or the id space wraps')
EXPLANATION = 'fixpoint search (no depth bound) per configuration; 31-bit part: all op sequences up to the stated depth'
ASSUMPTIONS = ['maximum stream id lowered via the _maximum_stream_id attribute exactly as the repository test-suite does',
               'handlers are inert sentinel objects; StreamControl never calls them in the explored operations']
BUDGET_S = {'quick': 120, 'thorough': 1500}


def bounds(tier):
    return {'configs': [u['name'] for u in make_units(tier)]}


def make_units(tier):
    units = []
    for first in (1, 2):
        units.append({'kind': 'graph', 'name': 'graph max=0x7 first=%d all ids' % first, 'max': 0x7, 'first': first,
                      'incoming': 'all'})
        units.append({'kind': 'graph', 'name': 'graph max=0xF first=%d incoming={lo,mid,hi}x2' % first, 'max': 0xF,
                      'first': first, 'incoming': 'few'})
        units.append({'kind': 'wrap31', 'name': 'wrap31 first=%d depth=%d' % (first, 6 if tier == 'quick' else 8),
                      'first': first, 'depth': 6 if tier == 'quick' else 8})
        # (larger id spaces were tried for the thorough tier: max 0xF with all 15 incoming ids has 262k states and takes
        #  about an hour single-threaded, 0x1F does not finish; the thorough tier deepens the 31-bit histories instead)
    for flavour in ('tcp', 'msg'):
        units.append({'kind': 'wire', 'name': 'wire ' + flavour, 'flavour': flavour, 'tier': tier})
    return units


class Sentinel:
    """Stand-in stream handler."""

    def __init__(self, tag):
        self.tag = tag

    def __deepcopy__(self, memo):
        return self

    def __repr__(self):
        return 'H%s' % (self.tag,)


# ---- reference model -------------------------------------------------------------------------------------------
class Ref:
    def __init__(self, first, maximum):
        self.max = maximum
        self.cur = (first - 2) & 0x7FFFFFFF  # the documented starting point: "first id minus one step"
        self.parity = first & 1
        self.active = {}

    def clone(self):
        r = Ref.__new__(Ref)
        r.max, r.cur, r.parity = self.max, self.cur, self.parity
        r.active = dict(self.active)
        return r

    def alloc(self):
        """next id in cyclic order with the endpoint's parity that is neither 0 nor active; None iff none is free."""
        n_parity = (self.max + 1) // 2
        c = self.cur
        for _ in range(n_parity):
            c = (c + 2) & self.max
            if c != 0 and c not in self.active:
                self.cur = c
                return c
        return None


def canon(sc):
    d = dict(vars(sc))
    streams = d.pop('_streams')
    return (tuple(sorted((k, repr(v)) for k, v in d.items())), tuple(sorted((k, repr(v)) for k, v in streams.items())))


def new_sc(first, maximum):
    from rsocket.stream_control import StreamControl
    sc = StreamControl(first)
    sc._maximum_stream_id = maximum
    return sc


def apply_op(sc, ref, op, part, path):
    """Apply op to the real object and the reference; returns a violation tuple or None."""
    from rsocket.exceptions import RSocketStreamAllocationFailure, RSocketStreamIdInUse
    kind = op[0]
    part.transitions += 1
    if kind in ('alloc_reg', 'alloc_noreg'):
        exp = ref.alloc()
        try:
            got = sc.allocate_stream()
        except RSocketStreamAllocationFailure:
            got = None
        if got != exp:
            return ('C13.alloc-matches-reference', 'C13.alloc-matches-reference | %s' % (
                'spurious-failure' if got is None else ('missed-failure' if exp is None else 'wrong-id'),),
                    'allocate returned %r, reference %r' % (got, exp))
        if got is not None:
            if got == 0:
                return ('C13.never-zero', 'C13.never-zero', 'allocated id 0')
            if (got & 1) != ref.parity:
                return ('C13.parity', 'C13.parity', 'allocated %d with wrong parity' % got)
            if got in ref.active:
                return ('C13.never-active', 'C13.never-active', 'allocated live id %d' % got)
            if kind == 'alloc_reg':
                h = Sentinel('a%d' % got)
                sc.register_stream(got, h)
                ref.active[got] = h
    elif kind == 'finish':
        sc.finish_stream(op[1])
        ref.active.pop(op[1], None)
    elif kind == 'incoming':
        i = op[1]
        try:
            sc.assert_stream_id_available(i)
            ok = True
        except RSocketStreamIdInUse:
            ok = False
        if ok != (i not in ref.active):
            return ('C13.incoming-reuse-rejected', 'C13.incoming-reuse-rejected | %s' % (
                'accepted-live-id' if ok else 'rejected-free-id'), 'incoming id %d ok=%s active=%s' % (i, ok, sorted(ref.active)))
        if ok:
            h = Sentinel('i%d' % i)
            sc.register_stream(i, h)
            ref.active[i] = h
    # differential state comparison
    real_active = dict(sc._streams) if hasattr(sc, '_streams') else None
    if real_active is not None:
        if set(real_active) != set(ref.active):
            return ('C13.active-set', 'C13.active-set | after %s' % kind,
                    'active ids %s, reference %s' % (sorted(real_active), sorted(ref.active)))
        for k, v in real_active.items():
            if v is not ref.active[k]:
                return ('C13.incoming-reuse-rejected', 'C13.incoming-reuse-rejected | handler-replaced',
                        'handler of live stream %d was replaced' % k)
    return None


def ops_for(ref, maximum, incoming):
    ops = [('alloc_reg',), ('alloc_noreg',)]
    for i in sorted(ref.active):
        ops.append(('finish', i))
    free = [i for i in range(1, maximum + 1) if i not in ref.active]
    if free:
        ops.append(('finish', free[0]))
    if incoming == 'all':
        ids = range(1, maximum + 1)
    else:
        ids = sorted({1, 2, maximum // 2, maximum // 2 + 1, maximum - 1, maximum})
    for i in ids:
        ops.append(('incoming', i))
    return ops


def run_graph(unit, part):
    first, maximum = unit['first'], unit['max']
    sc0, ref0 = new_sc(first, maximum), Ref(first, maximum)
    seen = {canon(sc0)}
    part.state(canon(sc0))
    frontier = deque([(sc0, ref0, ())])
    while frontier:
        sc, ref, path = frontier.popleft()
        for op in ops_for(ref, maximum, unit['incoming']):
            sc2, ref2 = copy.deepcopy(sc), ref.clone()
            part.evaluations += 1
            nxt = (ref.cur + 2) & maximum
            if ref.active and (nxt == 0 or nxt in ref.active or nxt < ref.cur) and op[0].startswith('alloc'):
                part.nontriv((canon(sc), op))
            v = apply_op(sc2, ref2, op, part, path)
            if v is not None:
                rule, sig, detail = v
                part.violate(rule, sig, detail, {'unit': unit, 'path': [list(o) for o in path + (op,)]})
                continue
            k = canon(sc2)
            if k not in seen:
                seen.add(k)
                part.state(k)
                frontier.append((sc2, ref2, path + (op,)))
    part.traces += len(seen)
    part.sample({'config': unit['name'], 'states': len(seen)})
    part.outcome(('graph', unit['name'], len(seen)))


def run_wrap31(unit, part):
    """All operation sequences up to depth d from a state whose current id sits just below 2^31-1 (forced, as the
    test-suite does), so every history crosses the wrap."""
    MAXID = 0x7FFFFFFF
    first, depth = unit['first'], unit['depth']
    start = MAXID - 4 if first & 1 else MAXID - 5
    base_ops = [('alloc_reg',), ('alloc_noreg',), ('finish_last',), ('finish_first',), ('incoming_next',), ('incoming_low',)]

    def rec(path):
        sc, ref = new_sc(first, MAXID), Ref(first, MAXID)
        sc._current_stream_id = start
        ref.cur = start
        allocated = []
        for sym in path:
            if sym[0] == 'finish_last':
                op = ('finish', allocated[-1] if allocated else 1)
            elif sym[0] == 'finish_first':
                op = ('finish', allocated[0] if allocated else 1)
            elif sym[0] == 'incoming_next':
                op = ('incoming', ((ref.cur + 2) & MAXID) or first)
            elif sym[0] == 'incoming_low':
                op = ('incoming', first if first not in ref.active else first + 2)
            else:
                op = sym
            before = ref.cur
            v = apply_op(sc, ref, op, part, path)
            if v is not None:
                rule, sig, detail = v
                part.violate(rule, sig + ' | 31-bit', detail, {'unit': unit, 'path': [list(o) for o in path]})
                return
            if op[0] == 'alloc_reg':
                allocated.append(ref.cur)
            if ref.cur < before:
                part.nontriv(('wrap', path))
        part.evaluations += 1
        part.traces += 1
        part.state(canon(sc))
        if len(path) < depth:
            for o in base_ops:
                rec(path + (o,))

    rec(())
    part.sample({'config': unit['name']})


def run_wire(unit, part):
    from mc.props import c13_wire
    c13_wire.run(unit, part)


def run_unit(unit, part):
    if unit['kind'] == 'graph':
        run_graph(unit, part)
    elif unit['kind'] == 'wrap31':
        run_wrap31(unit, part)
    else:
        run_wire(unit, part)


def replay(rec):
    from mc.runner import Partial
    w = rec['witness']
    unit = w['unit']
    part = Partial()
    if unit['kind'] == 'wire':
        from mc.props import c13_wire
        return c13_wire.replay(rec)
    if unit['kind'] == 'graph':
        sc, ref = new_sc(unit['first'], unit['max']), Ref(unit['first'], unit['max'])
        for op in w['path']:
            v = apply_op(sc, ref, tuple(op), part, ())
            print(op, '->', 'cur=%s active=%s' % (getattr(sc, '_current_stream_id', '?'), sorted(getattr(sc, '_streams', {}))), v or '')
            if v is not None:
                return True
        return False
    p2 = Partial()
    run_wrap31(unit, p2)
    return bool(p2.violations)
