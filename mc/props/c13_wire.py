"""C13 wire part: ids on request frames of two real endpoints; duplicate-id request from a scripted peer."""
from mc import refwire as R
from mc.app import RecSubscriber, RecPublisher, P, watch_future
from mc.explore import Scenario, dev_explore, replay_witness
from mc.world import Step, start_pair, start_server, start_client, inject
from rsocket.helpers import create_future
from rsocket.payload import Payload

KINDS = ('rr', 'fnf', 'stream', 'channel')


class IdsOnWire(Scenario):
    """Both sides issue a mix of requests; every new-stream request frame must carry the next id of that side."""

    def __init__(self, flavour, order):
        self.name = 'ids-on-wire'
        self.params = {'flavour': flavour, 'order': list(order)}
        self.world_kw = {'alts': (), 'modes': ('Q',)}
        self.flavour, self.order = flavour, order

    def setup(self, w):
        def beh():
            return {'request_response': lambda h, p: create_future(Payload(b'ok')),
                    'request_stream': lambda h, p: RecPublisher(w, h.ep, 'pub'),
                    'request_channel': lambda h, p: (RecPublisher(w, h.ep, 'pub'), RecSubscriber(w, h.ep, 'chsub'))}

        conn, client, server = start_pair(w, self.flavour, c_beh=beh(), s_beh=beh())
        for side, sock in (('c', client), ('s', server)):
            steps = []
            for i, kind in enumerate(self.order):
                def fn(w, kind=kind, sock=sock, side=side, i=i):
                    if kind == 'rr':
                        sock.request_response(P(b'q'))
                    elif kind == 'fnf':
                        sock.fire_and_forget(P(b'f'))
                    elif kind == 'stream':
                        sock.request_stream(P(b's')).initial_request_n(1).subscribe(RecSubscriber(w, side, 'sub%d' % i))
                    else:
                        sock.request_channel(P(b'c'), RecPublisher(w, side, 'cp%d' % i)).initial_request_n(1).subscribe(
                            RecSubscriber(w, side, 'csub%d' % i))
                steps.append(Step('%s%d' % (kind, i), fn))
            w.add_actor(side, steps)

    def check(self, w):
        out = []
        for ep, first in (('c0', 1), ('s0', 2)):
            ids = [ev[2].sid for ev in w.log if ev[0] == 'tx' and ev[1] == ep and ev[2].type in R.REQUEST_TYPES]
            exp = [first + 2 * i for i in range(len(self.order))]
            if ids != exp:
                out.append(('C13.wire-ids', 'C13.wire-ids | %s' % ep, 'request frames of %s carry ids %s, expected %s' % (ep, ids, exp)))
        return out

    def nontrivial(self, w):
        return True

    def outcome(self, w):
        return tuple(ev[2].sid for ev in w.log if ev[0] == 'tx' and ev[2].type in R.REQUEST_TYPES)


class DuplicateId(Scenario):
    """Scripted peer opens a stream, then sends another request frame on the same live id."""

    def __init__(self, flavour, role, live_kind, dup_kind, frag=False):
        self.name = 'duplicate-id'
        self.frag = frag  # the duplicate request arrives in two fragments (request frame with FOLLOWS, then a PAYLOAD frame)
        self.params = {'flavour': flavour, 'role': role, 'live': live_kind, 'dup': dup_kind, 'frag': frag}
        self.world_kw = {'alts': ('all',), 'modes': ('Q', '0')}
        self.flavour, self.role, self.live, self.dup = flavour, role, live_kind, dup_kind

    def setup(self, w):
        pub = RecPublisher(w, 'app', 'live-pub')
        w.objs['pub'] = pub
        beh = {'request_stream': lambda h, p: pub,
               'request_channel': lambda h, p: (pub, RecSubscriber(w, 'app', 'chsub')),
               'request_response': lambda h, p: w.objs.setdefault('rrfut', create_future()),
               }
        conn = w.new_conn(self.flavour)
        if self.role == 'server':
            start_server(w, conn, beh)
            d, sid = conn.c2s, 1
            inject(w, d, R.enc_setup())
        else:
            start_client(w, conn, beh)
            d, sid = conn.s2c, 2
        self.sid = sid
        tmap = {'rr': R.REQUEST_RESPONSE, 'fnf': R.REQUEST_FNF, 'stream': R.REQUEST_STREAM, 'channel': R.REQUEST_CHANNEL}

        def open_live(w):
            inject(w, d, R.enc_request(tmap[self.live], sid, b'live', n=1))

        def dup(w):
            if self.frag:
                inject(w, d, R.enc_request(tmap[self.dup], sid, b'dup-first-', n=5, follows=True))
                inject(w, d, R.enc_payload(sid, b'dup-rest', next=False) if False else R.enc_payload(sid, b'dup-rest'))
            else:
                inject(w, d, R.enc_request(tmap[self.dup], sid, b'dup', n=5))

        def emit1(w):
            pub.emit(P(b'e0'))

        def credit(w):
            inject(w, d, R.enc_request_n(sid, 2))

        def emit2(w):
            pub.emit(P(b'e1'))
            pub.emit(P(b'e2'), True)

        w.add_actor('peer', [Step('open', open_live), Step('dup', dup), Step('credit', credit)])
        w.add_actor('app', [Step('emit1', emit1, guard=lambda w: pub.requested >= 1 and pub.subscriber is not None),
                            Step('emit2', emit2, guard=lambda w: pub.requested >= 3)])

    def check(self, w):
        out = []
        ep = 's0' if self.role == 'server' else 'c0'
        tx = [ev[2] for ev in w.log if ev[0] == 'tx' and ev[1] == ep and ev[2].sid == self.sid]
        errs = [f for f in tx if f.type == R.ERROR]
        calls = [ev for ev in w.log if ev[0] == 'api' and ev[2] == 'handler' and ev[3].startswith('request_')]
        tag = '%s/%s-on-%s%s' % (self.role, self.dup, self.live, ' | fragmented' if self.frag else '')
        if len(errs) != 1 or errs[0].error_code != 0x202:
            out.append(('C13.dup-id-rejected', 'C13.dup-id-rejected | %s' % tag,
                        'expected exactly one ERROR[REJECTED] on stream %d, saw %s' % (self.sid, tx)))
        if len(calls) != 1:
            out.append(('C13.dup-id-not-replacing', 'C13.dup-id-not-replacing | handler-invoked | %s' % tag,
                        'handler request methods invoked %d times' % len(calls)))
        pub = w.objs['pub']
        if pub.requests != [1, 2]:
            out.append(('C13.dup-id-not-replacing', 'C13.dup-id-not-replacing | credit | %s' % tag,
                        'live publisher saw requests %s, expected [1, 2]' % pub.requests))
        pay = [(bytes(f.data), f.complete) for f in tx if f.type == R.PAYLOAD]
        if pay != [(b'e0', False), (b'e1', False), (b'e2', True)]:
            out.append(('C13.dup-id-not-replacing', 'C13.dup-id-not-replacing | elements | %s' % tag,
                        'live stream emitted %s' % pay))
        return out

    def nontrivial(self, w):
        return True

    def outcome(self, w):
        return tuple(repr(ev[2]) for ev in w.log if ev[0] == 'tx')


class WrapOnWire(Scenario):
    """A long-lived stream holds the first id; the allocator is then placed just below 2^31-1 (as the suite does) and
    further requests must wrap on the wire, skipping 0 and the id still in use."""

    def __init__(self, flavour, side):
        self.name = 'wrap-on-wire'
        self.params = {'flavour': flavour, 'side': side}
        self.world_kw = {'alts': ('all',), 'modes': ('Q',)}
        self.flavour, self.side = flavour, side

    def setup(self, w):
        beh = {'request_response': lambda h, p: create_future(Payload(b'ok')),
               'request_stream': lambda h, p: RecPublisher(w, h.ep, 'pub')}
        conn, client, server = start_pair(w, self.flavour, c_beh=dict(beh), s_beh=dict(beh))
        sock = client if self.side == 'c' else server
        MAXID = 0x7FFFFFFF

        def first(w):
            sock.request_stream(P(b'long')).initial_request_n(1).subscribe(RecSubscriber(w, self.side, 'long'))

        def jump(w):
            sock._stream_control._current_stream_id = MAXID - 4 if self.side == 'c' else MAXID - 5

        def rr(w, i):
            w.objs['f%d' % i] = watch_future(w, self.side, 'f%d' % i, sock.request_response(P(b'q%d' % i)))

        w.add_actor(self.side, [Step('long', first), Step('jump', jump)] + [Step('rr%d' % i, lambda w, i=i: rr(w, i)) for i in range(4)])

    def check(self, w):
        MAXID = 0x7FFFFFFF
        ep = 'c0' if self.side == 'c' else 's0'
        ids = [ev[2].sid for ev in w.log if ev[0] == 'tx' and ev[1] == ep and ev[2].type in R.REQUEST_TYPES]
        exp = [1, MAXID - 2, MAXID, 3, 5] if self.side == 'c' else [2, MAXID - 3, MAXID - 1, 4, 6]
        out = []
        if ids != exp:
            out.append(('C13.wire-wrap', 'C13.wire-wrap | %s' % ('client' if self.side == 'c' else 'server'),
                        'request frames carry ids %s, expected %s (wrap at 2^31-1 skipping 0 and the live first id)' % (ids, exp)))
        answered = [w.objs.get('f%d' % i, {}).get('state') for i in range(4)]
        if answered != ['result'] * 4:
            out.append(('C13.wire-wrap', 'C13.wire-wrap | answers | %s' % ('client' if self.side == 'c' else 'server'), 'requests around the wrap ended %s' % answered))
        return out

    def nontrivial(self, w):
        return True

    def outcome(self, w):
        return tuple(ev[2].sid for ev in w.log if ev[0] == 'tx' and ev[2].type in R.REQUEST_TYPES)


def scenarios(unit):
    fl = unit['flavour']
    out = []
    orders = [('rr', 'fnf', 'stream', 'channel'), ('fnf', 'fnf', 'rr', 'rr'), ('channel', 'stream', 'fnf', 'rr'),
              ('stream', 'rr', 'channel', 'fnf', 'rr')]
    for o in orders:
        out.append((IdsOnWire(fl, o), 1))
    for side in ('c', 's'):
        out.append((WrapOnWire(fl, side), 1))
    for role in ('server', 'client'):
        for live in ('stream', 'channel'):
            for dup in KINDS:
                out.append((DuplicateId(fl, role, live, dup), 2))
                out.append((DuplicateId(fl, role, live, dup, frag=True), 1))
    return out


def run(unit, part):
    for scn, bound in scenarios(unit):
        dev_explore(scn, bound, part)


def scenario_from(name, params):
    if name == 'wrap-on-wire':
        return WrapOnWire(params['flavour'], params['side'])
    if name == 'ids-on-wire':
        return IdsOnWire(params['flavour'], tuple(params['order']))
    return DuplicateId(params['flavour'], params['role'], params['live'], params['dup'], params.get('frag', False))


def replay(rec):
    w = rec['witness']
    scn = scenario_from(w['scenario'], w['params'])
    return bool(replay_witness(scn, w))
