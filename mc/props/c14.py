"""C14 Lease: all sequences (bounded depth) of LEASE frames, requests of the four types and clock advances against a
real lease-honouring requester under the virtual clock; reference lease ledger. Responder side: published leases."""
import asyncio
import itertools
from datetime import timedelta

from mc import refwire as R
from mc.app import RecSubscriber, P, watch_future
from mc.runner import arm_watchdog, disarm_watchdog, Watchdog
from mc.solo import Solo
from mc.vloop import Livelock

RULE = ('SEQ under a virtual clock: every sequence up to the stated depth over {LEASE(count in {0,1,2}, ttl in {1000,250} ms)} + '
        '{request of two of the four types} + {advance(ttl/2), advance(ttl), advance(ttl+1ms)} (no two consecutive advances, at '
        'least one request), x request type pairs x fragment size {None,64} x request_queue_size {0,2}; reference lease ledger: '
        'no request before the first LEASE, at most count requests per lease, none later than arrival+ttl (the boundary instant is '
        'accepted either way, except that a LEASE with time-to-live 0 releases nothing: separate alphabet {LEASE(2,0), LEASE(1,0), LEASE(1,1000), two request types, advance}), overflow of a bounded queue fails the call, after a final generous LEASE every accepted request was '
        'sent exactly once in call order; responder: one LEASE frame per published lease with exact count and ttl; non-trivial = '
        'sequence in which a request was made while no usable lease existed; states = distinct ledger states')
EXPLANATION = 'exhaustive enumeration of operation sequences on the real requester; wall clock replaced by the virtual clock through the module-level datetime seam'
ASSUMPTIONS = ['datetime.now() in rsocket.lease / rsocket.rsocket_client reads the virtual clock',
               'a fragmented request counts once (judged at its first fragment)']
BUDGET_S = {'quick': 300, 'thorough': 3000}

DEPTH = {'quick': 5, 'thorough': 6}
LEASES = [(c, t) for c in (0, 1, 2) for t in (1000, 250)]
KIND_PAIRS = (('rr', 'stream'), ('fnf', 'channel'))
TYPE = {'rr': R.REQUEST_RESPONSE, 'stream': R.REQUEST_STREAM, 'fnf': R.REQUEST_FNF, 'channel': R.REQUEST_CHANNEL}


def bounds(tier):
    return {'depth': DEPTH[tier], 'leases': LEASES, 'advances': ['ttl/2', 'ttl', 'ttl+1ms'], 'queue_sizes': [0, 2], 'fragment_sizes': [None, 64],
            'responder_counts': [0, 1, 0x7FFFFFFF], 'responder_ttls_ms': [1000, 1500, 250, 1, 2250, 86401500, 2073600000]}


def symbols(kinds, alpha=None):
    if alpha == 'ttl0':
        # leases that are dead on arrival (time-to-live 0) next to a live one: a zero time-to-live has elapsed the moment the
        # LEASE arrives, so it releases nothing - the one boundary case that is not a matter of clock resolution
        return [('L', 2, 0), ('L', 1, 0), ('L', 1, 1000)] + [('R', k) for k in kinds] + [('A', 'ttl+1')]
    return [('L', c, t) for c, t in LEASES] + [('R', k) for k in kinds] + [('A', 'half'), ('A', 'ttl'), ('A', 'ttl+1')]


def run_seq(kinds, fs, qsize, seq, flavour='tcp', role='client'):
    # role 'server': the lease-honouring requester is the server side of the connection (it gets its leases from the client)
    s = Solo(role, flavour, honor_lease=True, request_queue_size=qsize, fragment_size_bytes=fs)
    try:
        w = s.w
        loop = w.loop
        calls = []  # (index, kind, failed, time)
        last_ttl = 1000
        nreq = 0
        ledger_states = []
        for sym in seq:
            if sym[0] == 'L':
                s.peer(R.enc_lease(sym[2], sym[1]))
                last_ttl = sym[2]
            elif sym[0] == 'A':
                d = {'half': last_ttl / 2000.0, 'ttl': last_ttl / 1000.0, 'ttl+1': last_ttl / 1000.0 + 0.001}[sym[1]]
                s.advance(d)
            else:
                kind = sym[1]
                i = nreq
                nreq += 1
                body = (b'%02d:' % i) + (b'x' * 150 if fs else b'x')
                failed = None
                try:
                    if kind == 'rr':
                        s.sock.request_response(P(body))
                    elif kind == 'fnf':
                        s.sock.fire_and_forget(P(body))
                    elif kind == 'stream':
                        s.sock.request_stream(P(body)).initial_request_n(1).subscribe(RecSubscriber(w, s.ep, 'sub%d' % i))
                    else:
                        s.sock.request_channel(P(body)).initial_request_n(1).subscribe(RecSubscriber(w, s.ep, 'sub%d' % i))
                except asyncio.QueueFull:
                    failed = 'QueueFull'
                calls.append((i, kind, failed, loop.time()))
                w.logev(('call', i, kind, failed))
                s.settle()
        # final generous lease: nothing may be lost silently
        s.peer(R.enc_lease(100000, 100))
        w.logev(('final',))
        s.settle()
        return s, calls
    except BaseException:
        s.teardown()
        raise


def judge(s, calls, qsize, kinds, fs):
    out = []
    w = s.w
    now = 0.0
    lease = None  # [arrival, ttl_s, count, used]
    first_frames = []  # (req index, time)
    queue_len = 0
    queued_ever = False
    final = False
    frag_open = set()
    seen_idx = {}
    ref_queue = []
    ref_lease = None
    tag = '%s fs=%s q=%s' % ('+'.join(kinds), fs, qsize)

    def bad(rule, ctx, detail):
        out.append(('C14.' + rule, 'C14.%s | %s' % (rule, ctx), detail))

    for ev in w.log:
        if ev[0] == 't':
            now = ev[1]
        elif ev[0] == 'final':
            final = True
        elif ev[0] == 'rx' and ev[2].type == R.LEASE:
            lease = [now, ev[2].ttl / 1000.0, ev[2].count, 0]
        elif ev[0] == 'tx' and ev[1] == s.ep:
            f = ev[2]
            if f.type in R.REQUEST_TYPES:
                idx = int(bytes(f.data[:2]))
                kind = {v: k for k, v in TYPE.items()}[f.type]
                if idx in seen_idx:
                    bad('sent-at-most-once', kind, 'request #%d put on the wire twice' % idx)
                seen_idx[idx] = now
                first_frames.append(idx)
                if lease is None:
                    bad('no-request-before-lease', kind, 'request #%d sent at t=%.3f before any LEASE arrived' % (idx, now))
                else:
                    lease[3] += 1
                    if lease[3] > lease[2]:
                        bad('at-most-granted', '%s | count=%d' % (kind, lease[2]), 'request #%d is number %d under a lease granting %d' % (idx, lease[3], lease[2]))
                    if lease[1] == 0:
                        bad('none-after-ttl', '%s | zero-ttl-lease' % kind, 'request #%d sent at t=%.3f under a LEASE whose time-to-live is 0 ms (arrived %.3f)' % (idx, now, lease[0]))
                    elif now > lease[0] + lease[1] + 1e-9:
                        bad('none-after-ttl', '%s | late-by-%dms' % (kind, round((now - lease[0] - lease[1]) * 1000)),
                            'request #%d sent at t=%.3f, lease arrived %.3f ttl %.3f' % (idx, now, lease[0], lease[1]))
    # reference queue model for overflow / loss
    accepted = [c for c in calls if c[2] is None]
    # recompute which calls had to be queued (no usable lease) with the reference ledger, boundary-tolerant
    order_expected = [c[0] for c in accepted]
    if first_frames != [i for i in first_frames if i in order_expected]:
        for i in first_frames:
            if i not in order_expected:
                bad('overflow-call-fails', 'failed-call-sent', 'request #%d whose call failed was nevertheless sent' % i)
    sent_ok = [i for i in first_frames if i in order_expected]
    missing = [i for i in order_expected if i not in sent_ok]
    if missing:
        k = next(c[1] for c in calls if c[0] == missing[0])
        bad('nothing-lost', k, 'requests %s were accepted but never sent even after a generous final LEASE' % missing)
    if sent_ok != sorted(sent_ok):
        bad('fifo-release', '+'.join(kinds), 'requests reached the wire in order %s, called in order %s' % (sent_ok, order_expected))
    # bounded queue: model how many were waiting at each call
    if qsize:
        waiting = 0
        sent_before = {}
        # count, for every call, how many earlier accepted calls were still unsent at call time
        pos = {ev_i: n for n, ev_i in enumerate([])}
        log = w.log
        sent_set = set()
        t_now = 0.0
        for ev in log:
            if ev[0] == 'tx' and ev[1] == s.ep and ev[2].type in R.REQUEST_TYPES:
                sent_set.add(int(bytes(ev[2].data[:2])))
            elif ev[0] == 'call':
                i, kind, failed = ev[1], ev[2], ev[3]
                earlier_waiting = [c[0] for c in calls if c[0] < i and c[2] is None and c[0] not in sent_set]
                if failed and len(earlier_waiting) < qsize:
                    bad('overflow-call-fails', 'spurious-failure | %s' % kind, 'call #%d failed with %s while only %d requests were waiting (queue size %d)' % (i, failed, len(earlier_waiting), qsize))
                if len(earlier_waiting) > qsize:
                    bad('overflow-call-fails', 'queue-exceeds-bound | %s' % kind, '%d requests waiting with queue size %d' % (len(earlier_waiting), qsize))
    return out


def nontrivial(calls, s):
    # a request made while no usable lease existed = its first frame was not sent at call time
    sent_at = {}
    now = 0.0
    for ev in s.w.log:
        if ev[0] == 't':
            now = ev[1]
        if ev[0] == 'tx' and ev[1] == s.ep and ev[2].type in R.REQUEST_TYPES:
            sent_at[int(bytes(ev[2].data[:2]))] = now
    return any(c[2] is None and sent_at.get(c[0], 1e18) > c[3] + 1e-12 for c in calls) or any(c[2] for c in calls)


def explore(kinds, fs, qsize, first, depth, part, flavour, role='client', alpha=None):
    syms = symbols(kinds, alpha)

    def rec(seq):
        if any(x[0] == 'R' for x in seq):
            try:
                arm_watchdog(3)  # a sequence takes milliseconds; a library call that no longer returns must not eat the budget
                s, calls = run_seq(kinds, fs, qsize, seq, flavour, role)
                try:
                    v = judge(s, calls, qsize, kinds, fs)
                    part.evaluations += 1
                    part.traces += 1
                    part.transitions += len(seq) + 1
                    st = (tuple(c[2] for c in calls), tuple(sorted(int(bytes(f.data[:2])) for f in s.sent() if f.type in R.REQUEST_TYPES)))
                    part.state((kinds, fs, qsize, st, tuple(x for x in seq if x[0] != 'R')))
                    part.outcome(st)
                    if nontrivial(calls, s):
                        part.nontriv((kinds, fs, qsize, tuple(seq)))
                    for msg, exc, txt in s.w.loop.read_exc_log():
                        v.append(('C14.exception', 'C14.exception | %s' % exc, '%s %s' % (msg, txt)))
                finally:
                    s.teardown()
            except (Livelock, Watchdog) as e:
                v = [('termination', 'termination | C14 | %s' % type(e).__name__, str(e))]
            finally:
                disarm_watchdog()
            for rule, sig, detail in v:
                part.violate(rule, sig, detail + ' seq=%s' % (seq,), {'kind': 'requester', 'kinds': list(kinds), 'fs': fs, 'q': qsize,
                                                                     'flavour': flavour, 'seq': [list(x) for x in seq], 'role': role})
        if len(seq) >= depth:
            return
        for sym in syms:
            if sym[0] == 'A' and seq and seq[-1][0] == 'A':
                continue
            if sym[0] == 'A' and not any(x[0] == 'L' for x in seq):
                continue  # advancing before any lease exists changes nothing
            rec(seq + [sym])

    rec([first])


# ---- responder side ---------------------------------------------------------------------------------------------------
def responder_case(flavour, count, ttl_ms, multi, part):
    from reactivestreams.publisher import Publisher
    from rsocket.lease import SingleLeasePublisher, DefinedLease
    from mc.world import World, start_pair
    w = World()
    try:
        published = []
        if multi:
            class Multi(Publisher):
                def subscribe(self, subscriber):
                    self.subscriber = subscriber

            pub = Multi()
        else:
            pub = SingleLeasePublisher(maximum_request_count=count, maximum_lease_time=timedelta(milliseconds=ttl_ms))
            published.append((count, ttl_ms))
        conn, client, server = start_pair(w, flavour, client_kw={'honor_lease': True}, server_kw={'lease_publisher': pub})
        w.run_q()
        from mc.world import Chooser
        w.run(Chooser([]))
        if multi:
            for c, t in ((count, ttl_ms), (1, 1000), (count, 250)):
                pub.subscriber.on_next(DefinedLease(maximum_request_count=c, maximum_lease_time=timedelta(milliseconds=t)))
                published.append((c, t))
            w.run(Chooser([]))
        got = [(ev[2].count, ev[2].ttl) for ev in w.log if ev[0] == 'tx' and ev[1] == 's0' and ev[2].type == R.LEASE]
        part.evaluations += 1
        part.traces += 1
        part.transitions += len(published)
        part.state(('resp', flavour, count, ttl_ms, multi, tuple(got)))
        part.outcome(tuple(got))
        if got != published:
            field = 'ttl' if [g[0] for g in got] == [p[0] for p in published] and len(got) == len(published) else ('count' if len(got) == len(published) else 'frames')
            sub = 'sub-second' if any(p[1] % 1000 for p in published) else 'whole-seconds'
            part.violate('C14.responder-announces-leases', 'C14.responder-announces-leases | %s | %s' % (field, sub),
                         'published (count, ttl ms) %s, LEASE frames carry %s' % (published, got),
                         {'kind': 'responder', 'flavour': flavour, 'count': count, 'ttl': ttl_ms, 'multi': multi})
    finally:
        w.teardown()


def make_units(tier):
    units = []
    for kinds in KIND_PAIRS:
        for fs in (None, 64):
            for q in (0, 2):
                for first in symbols(kinds):
                    if first[0] == 'A':
                        continue
                    units.append({'kind': 'requester', 'kinds': list(kinds), 'fs': fs, 'q': q, 'first': list(first), 'depth': DEPTH[tier],
                                  'flavour': 'tcp' if (fs is None) == (q == 0) else 'msg'})
    # the server side as lease-honouring requester (one request-type pair, one level shallower)
    for first in symbols(KIND_PAIRS[0]):
        if first[0] != 'A':
            units.append({'kind': 'requester', 'kinds': list(KIND_PAIRS[0]), 'fs': None, 'q': 2, 'first': list(first), 'depth': DEPTH[tier] - 1,
                          'flavour': 'tcp', 'role': 'server'})
    # zero time-to-live leases (dead on arrival) mixed with a live one
    for kinds in KIND_PAIRS:
        for fs, q in ((None, 2), (64, 2), (None, 0)):
            for first in symbols(kinds, 'ttl0'):
                if first[0] != 'A':
                    units.append({'kind': 'requester', 'kinds': list(kinds), 'fs': fs, 'q': q, 'first': list(first), 'depth': DEPTH[tier],
                                  'flavour': 'tcp', 'alpha': 'ttl0'})
    units.append({'kind': 'responder'})
    return units


def run_unit(unit, part):
    if unit['kind'] == 'responder':
        for flavour in ('tcp', 'msg'):
            for count in (0, 1, 0x7FFFFFFF):
                for ttl in (1000, 1500, 250, 1, 2250, 86401500, 2073600000):
                    for multi in (False, True):
                        responder_case(flavour, count, ttl, multi, part)
        part.sample({'kind': 'responder', 'counts': [0, 1, 0x7FFFFFFF], 'ttls_ms': [1000, 1500, 250, 1, 2250]})
        return
    explore(tuple(unit['kinds']), unit['fs'], unit['q'], tuple(unit['first']), unit['depth'], part, unit['flavour'], unit.get('role', 'client'), unit.get('alpha'))
    part.sample({'kind': 'requester', 'request_types': unit['kinds'], 'fs': unit['fs'], 'queue': unit['q'], 'first': unit['first'], 'depth': unit['depth']}, limit=1)


def replay(rec):
    from mc.runner import Partial
    w = rec['witness']
    if w['kind'] == 'responder':
        p = Partial()
        responder_case(w['flavour'], w['count'], w['ttl'], w['multi'], p)
        for v in p.violations.values():
            print(v.detail)
        return bool(p.violations)
    seq = [tuple(x) for x in w['seq']]
    s, calls = run_seq(tuple(w['kinds']), w['fs'], w['q'], seq, w.get('flavour', 'tcp'), w.get('role', 'client'))
    try:
        v = judge(s, calls, w['q'], tuple(w['kinds']), w['fs'])
        for ev in s.w.log:
            if ev[0] in ('tx', 'rx', 't', 'call'):
                print('   ', ev)
    finally:
        s.teardown()
    for x in v:
        print('violation:', x)
    return bool(v)
