"""C15 Keepalive: echo, periodic emission, timeout detection under a virtual clock; the scripted server's reaction to
every KEEPALIVE it receives is an explicit choice (DEV over acknowledgement patterns)."""
from datetime import timedelta

from mc import refwire as R
from mc.app import P, RecSubscriber, watch_future
from mc.explore import HarnessError
from mc.runner import arm_watchdog, disarm_watchdog, Watchdog
from mc.solo import Solo
from mc.vloop import Livelock
from mc.world import Chooser

RULE = ('DEV under a virtual clock: real client vs scripted server, (period, lifetime) in {(1,3),(2,2),(0.5,1.2),(3,1)} s, horizon '
        '7 lifetimes; at every KEEPALIVE the client emits the server chooses: acknowledge now (default) / after 0.4L, 1.1L, 1.5L, '
        '2.5L / fall silent for good; a second family in which the server additionally sends its own respond-flagged KEEPALIVE every 0.7L (they count as receptions); all acknowledgement patterns with <= bound deviations from "always ack now"; oracle: a '
        'respond-flagged KEEPALIVE at every multiple of the period until the first timeout, on_keepalive_timeout never invoked while '
        'the silence before it is clearly shorter than L, invoked by the end of every silence longer than 2L. Echo part: both real '
        'endpoints receive KEEPALIVE(respond x data x position) at several points of a scenario; non-trivial = pattern with at least '
        'one delayed or missing acknowledgement; states = distinct (config, reception-gap profile)')
EXPLANATION = 'stateless deviation-bounded exploration of acknowledgement patterns; all timers run on the virtual clock'
ASSUMPTIONS = ['exact boundary instants (silence == L, == 2L within 1e-6 s) are accepted either way']
BUDGET_S = {'quick': 400, 'thorough': 2400}

CONFIGS = ((1.0, 3.0), (2.0, 2.0), (0.5, 1.2), (3.0, 1.0))
DELAYS = (0.4, 1.1, 1.5, 2.5)
EPS = 1e-6


def bounds(tier):
    return {'configs_period_lifetime_s': [list(c) for c in CONFIGS], 'ack_delays_in_lifetimes': list(DELAYS), 'horizon_lifetimes': 7,
            'deviation_bound': 3 if tier == 'quick' else 4, 'links': ['tcp', 'msg']}


def run_pattern(period, life, flavour, prefix, beat=None):
    ch = Chooser(prefix)
    s = Solo('client', flavour, keep_alive_period=timedelta(seconds=period), max_lifetime_period=timedelta(seconds=life))
    try:
        w, loop = s.w, s.w.loop
        horizon = 7 * life
        pending = []
        if beat:
            # the server also proves liveness with its own respond-flagged KEEPALIVEs (every `beat` lifetimes)
            t_b = beat * life
            while t_b <= horizon:
                pending.append((t_b, b'SRV'))
                t_b += beat * life
        echoes = []
        srv_delivered = [0]
        silent = False
        seen = len(s.log)
        sends, recvs, timeouts = [], [], []
        labels = [('ack', 0)] + [('ack', d) for d in DELAYS] + [('silent',)]
        guard = 0
        while True:
            guard += 1
            if guard > 5000:
                raise Livelock('keepalive simulation does not advance')
            tt = loop.next_timer()
            ta = pending[0][0] if pending else None
            cands = [x for x in (tt, ta) if x is not None]
            if not cands:
                break
            t = min(cands)
            if t > horizon + EPS:
                break
            loop.advance_to(t)
            w.logev(('t', round(loop.time(), 6)))
            while pending and pending[0][0] <= t + 1e-12:
                _, data = pending.pop(0)
                if silent and data == b'SRV':
                    continue
                recvs.append(loop.time())
                if data == b'SRV':
                    srv_delivered[0] += 1
                s.peer(R.enc_keepalive(data == b'SRV', data))
            w.run_q()
            s.out.pending.clear()
            s.out.msgs.clear()
            for ev in s.log[seen:]:
                if ev[0] == 'tx' and ev[1] == s.ep and ev[2].type == R.KEEPALIVE and not (ev[2].flags & R.F_RESPOND):
                    echoes.append(bytes(ev[2].data or b''))
                if ev[0] == 'tx' and ev[1] == s.ep and ev[2].type == R.KEEPALIVE and (ev[2].flags & R.F_RESPOND):
                    sends.append(loop.time())
                    if not silent:
                        i = ch.choose(labels)
                        lab = labels[i]
                        if lab[0] == 'silent':
                            silent = True
                        else:
                            pending.append((loop.time() + lab[1] * life, bytes(ev[2].data or b'')))
                            pending.sort()
                elif ev[0] == 'api' and ev[3] == 'on_keepalive_timeout':
                    timeouts.append(loop.time())
            seen = len(s.log)
        run_pattern.last_echoes = echoes
        run_pattern.last_srv = srv_delivered[0]
        return ch, sends, recvs, timeouts, horizon
    finally:
        s.teardown()


def judge(period, life, sends, recvs, timeouts, horizon):
    out = []
    cfg = 'period=%g lifetime=%g' % (period, life)
    t1 = timeouts[0] if timeouts else horizon + 1
    # emission
    k = 1
    exp = []
    while k * period <= min(horizon, t1) + EPS:
        exp.append(k * period)
        k += 1
    got = [x for x in sends if x <= min(horizon, t1) + EPS]
    if got and got[0] < EPS:
        got = got[1:]  # an additional keepalive right at connect time is not excluded by the statement
    # the keepalive due at the very instant of the timeout may or may not go out
    ok = len(got) in (len(exp), len(exp) - 1) and all(abs(a - b_) < 1e-6 for a, b_ in zip(got, exp))
    if not ok:
        kind = 'missing' if len(got) < len(exp) else ('extra' if len(got) > len(exp) else 'wrong-time')
        out.append(('C15.periodic-emission', 'C15.periodic-emission | %s | %s' % (kind, cfg),
                    'respond-flagged KEEPALIVEs sent at %s, expected at %s' % ([round(x, 3) for x in got], [round(x, 3) for x in exp])))
    # no false timeout
    for T in timeouts:
        before = [r for r in recvs if r < T - EPS]
        last = before[-1] if before else 0.0
        if T - last < life - EPS:
            out.append(('C15.no-false-timeout', 'C15.no-false-timeout | %s' % cfg,
                        'on_keepalive_timeout at t=%.3f although the last KEEPALIVE arrived at t=%.3f (lifetime %.3f)' % (T, last, life)))
            break
    # detection
    # after the first timeout the client itself abandons the connection; silence is judged up to that moment only
    end = min(horizon, t1)
    marks = [0.0] + [r for r in recvs if r < end] + [end]
    for a, b_ in zip(marks, marks[1:]):
        if b_ - a > 2 * life + EPS:
            if not any(a < T <= a + 2 * life + EPS for T in timeouts):
                out.append(('C15.timeout-detected', 'C15.timeout-detected | %s' % cfg,
                            'no KEEPALIVE between t=%.3f and t=%.3f (> 2 x %.3f) but on_keepalive_timeout was not invoked by t=%.3f; invocations %s' % (
                                a, b_, life, a + 2 * life, [round(x, 3) for x in timeouts])))
                break
    return out


def explore(period, life, flavour, bound, part, shard, beat=None):
    k, K = shard
    counter = [0]

    def rec(prefix, used, top):
        try:
            arm_watchdog(30)
            ch, sends, recvs, timeouts, horizon = run_pattern(period, life, flavour, prefix, beat)
            v = judge(period, life, sends, recvs, timeouts, horizon)
            if beat:
                v = [(r, sg + ' | server-beat', d) for r, sg, d in v]
                n_echo = sum(1 for e in run_pattern.last_echoes if e == b'SRV')
                if not timeouts and n_echo != run_pattern.last_srv:
                    v.append(('C15.echo', 'C15.echo | server-beat | %s' % ('missing' if n_echo < run_pattern.last_srv else 'extra'),
                              '%d respond-flagged server KEEPALIVEs delivered, %d echoed' % (run_pattern.last_srv, n_echo)))
        except (Livelock, Watchdog) as e:
            ch, v, sends, recvs, timeouts = Chooser(prefix), [('termination', 'termination | C15 | %s' % type(e).__name__, str(e))], [], [], []
        finally:
            disarm_watchdog()
        counter[0] += 1
        if counter[0] % 100 == 1:
            ch2, s2, r2, t2, _ = run_pattern(period, life, flavour, ch.taken, beat)
            if (s2, r2, t2) != (sends, recvs, timeouts):
                raise HarnessError('non-deterministic keepalive replay')
            part.determinism_checks += 1
        if not top or k == 0:
            part.evaluations += 1
            part.traces += 1
            part.transitions += len(ch.taken)
            gaps = tuple(round(b_ - a, 3) for a, b_ in zip([0.0] + recvs, recvs))
            part.state((period, life, gaps))
            part.outcome((period, life, len(timeouts), len(sends)))
            if used:
                part.nontriv((period, life, flavour, tuple(ch.taken)))
            for rule, sig, detail in v:
                part.violate(rule, sig, detail, {'kind': 'pattern', 'period': period, 'life': life, 'flavour': flavour, 'choices': ch.spelled(), 'beat': beat})
            if used == bound and len(part.samples) < 2:
                part.sample({'period': period, 'lifetime': life, 'pattern': [c[1] for c in ch.spelled()], 'timeouts': timeouts})
        if used >= bound:
            return
        ordinal = 0
        for i in range(len(prefix), len(ch.points)):
            for alt in range(1, len(ch.points[i])):
                ordinal += 1
                if top and ordinal % K != k:
                    continue
                rec(list(ch.taken[:i]) + [alt], used + 1, False)

    rec([], 0, True)


# ---- echo ------------------------------------------------------------------------------------------------------------
def echo_cases(part):
    datas = (b'', b'x', bytes(range(256)) + b'\x00' * 44)
    for role in ('server', 'client'):
        for flavour in ('tcp', 'msg'):
            for point in ('idle', 'live-stream', 'after-finished'):
                for respond in (False, True):
                    for data in datas:
                        for pos in (0, 0x7FFFFFFFFFFFFFFF):
                            s = Solo(role, flavour, beh={'request_stream': lambda h, p: __import__('mc.app', fromlist=['RecPublisher']).RecPublisher(h.w, h.ep, 'pub'),
                                                        'request_response': lambda h, p: __import__('rsocket.helpers', fromlist=['create_future']).create_future(P(b'r'))})
                            try:
                                if point != 'idle':
                                    if role == 'server':
                                        s.peer(R.enc_request(R.REQUEST_STREAM if point == 'live-stream' else R.REQUEST_RESPONSE, 1, b'q', n=1))
                                    else:
                                        if point == 'live-stream':
                                            s.sock.request_stream(P(b'q')).initial_request_n(1).subscribe(RecSubscriber(s.w, s.ep, 'sub'))
                                            s.settle()
                                        else:
                                            s.sock.request_response(P(b'q'))
                                            s.settle()
                                            s.peer(R.enc_payload(1, b'r', complete=True))
                                mark = len(s.log)
                                s.peer(R.enc_keepalive(respond, data, pos))
                                got = s.sent(mark)
                                part.evaluations += 1
                                part.traces += 1
                                part.transitions += 1
                                part.state(('echo', role, flavour, point, respond, len(data), pos, len(got)))
                                want = 1 if respond else 0
                                ok = len(got) == want and all(f.type == R.KEEPALIVE and not (f.flags & R.F_RESPOND) and bytes(f.data or b'') == data and f.sid == 0 for f in got)
                                if not ok:
                                    kind = 'not-answered' if respond and not got else ('answered-unflagged' if not respond else
                                                                                     ('respond-flag-kept' if got and got[0].type == R.KEEPALIVE and (got[0].flags & R.F_RESPOND) else 'wrong-echo'))
                                    part.violate('C15.echo', 'C15.echo | %s | %s' % (kind, role),
                                                 'KEEPALIVE(respond=%s, %d data bytes) at %s answered with %s' % (respond, len(data), point, got),
                                                 {'kind': 'echo', 'role': role, 'flavour': flavour, 'point': point, 'respond': respond, 'data': data.hex(), 'pos': pos})
                            finally:
                                s.teardown()


def echo_sequences(part, tier):
    """All sequences of <= 3 (thorough 4) KEEPALIVE frames over {respond, no respond} x 3 data values, delivered in ONE read /
    before the endpoint runs (so several are handled before the sender task gets a turn) or one per read, both roles, both
    framings: every respond-flagged one is answered by exactly one unflagged frame with ITS data, in order; no other answers."""
    import itertools
    from mc.world import inject
    alpha = [(r, d) for r in (True, False) for d in (b'', b'first', b'second-ping')]
    depth = 3 if tier == 'quick' else 4
    for role in ('server', 'client'):
        for flavour in ('tcp', 'msg', 'quic') if tier == 'quick' else ('tcp', 'msg', 'quic', 'wsk', 'h3'):
            for n in range(2, depth + 1):
                for seq in itertools.product(alpha, repeat=n):
                    if not any(r for r, _ in seq):
                        continue
                    for batch in (True, False):
                        s = Solo(role, flavour)
                        try:
                            mark = len(s.log)
                            if batch:
                                for r, d in seq:
                                    inject(s.w, s.inn, R.enc_keepalive(r, d, 0))
                                s.deliver('Q')
                            else:
                                for r, d in seq:
                                    s.peer(R.enc_keepalive(r, d, 0))
                            got = [(f.type, bool(f.flags & R.F_RESPOND), bytes(f.data or b''), f.sid) for f in s.sent(mark)]
                            want = [(R.KEEPALIVE, False, d, 0) for r, d in seq if r]
                            part.evaluations += 1
                            part.traces += 1
                            part.transitions += n
                            part.state(('echo-seq', role, flavour, seq, batch, tuple(got)))
                            part.nontriv(('echo-seq', role, flavour, seq, batch))
                            if got != want:
                                kind = 'wrong-data' if [g[:2] + g[3:] for g in got] == [w_[:2] + w_[3:] for w_ in want] else ('count' if len(got) != len(want) else 'wrong-echo')
                                part.violate('C15.echo', 'C15.echo | sequence | %s | %s | %s' % (kind, role, 'one-read' if batch else 'one-per-read'),
                                             'KEEPALIVE sequence %s (%s) answered with %s, expected %s' % ([(r, d) for r, d in seq], 'one read' if batch else 'one per read', got, want),
                                             {'kind': 'echo-seq', 'role': role, 'flavour': flavour, 'seq': [[r, d.hex()] for r, d in seq], 'batch': batch})
                        finally:
                            s.teardown()



# ---- keepalives of a connection obtained by reconnect() -------------------------------------------------------------------
def reconnect_scenario(params=None):
    """C17's reconnect world (client + provider of three transports, each with its own real server; every server may fall
    silent at any choice point; the application reconnects from on_keepalive_timeout) judged by this property's clauses on the
    later connections: periodic emission restarts with the new connection and a silent later server is detected as well."""
    from mc.props import c17

    class ReconnectKeepalive(c17.Reconnect):
        def check(self, w):
            out = []
            log = w.log
            conns = w.objs['conns']
            times, t = [], 0.0
            for ev in log:
                if ev[0] == 't':
                    t = ev[1]
                times.append(t)
            end = w.loop.time()
            if w.loop.next_timer() is None:
                # nothing is scheduled any more: the world stays as it is until the horizon (a client without timers never sends
                # another KEEPALIVE and never reports a timeout)
                end = max(end, self.world_kw['horizon'])
            timeouts = [times[i] for i, ev in enumerate(log) if ev[0] == 'api' and len(ev) > 3 and ev[3] == 'on_keepalive_timeout']
            for k in range(1, len(conns)):
                c = conns[k]
                # the connection exists from the moment the client took the transport from its provider (in this world the
                # transport connects at once and only ever falls silent, so the client can always write)
                setup = next((i for i, ev in enumerate(log) if ev[0] == 'provide' and ev[1] == c.cname), None)
                if setup is None:
                    continue
                ts = times[setup]
                # the connection's life ends with the next reconnect request / timeout report / loss, or with the run
                stop = next((times[i] for i, ev in enumerate(log) if i > setup and (ev[0] == 'reconnect-requested' or (ev[0] == 'api' and len(ev) > 3 and ev[3] == 'on_keepalive_timeout')
                                                                                or (ev[0] in ('eof', 'rst', 'close') and ev[1] in (c.cname, c.sname)))), end)
                sends = [times[i] for i, ev in enumerate(log) if ev[0] == 'tx' and ev[1] == c.cname and ev[2].type == R.KEEPALIVE and (ev[2].flags & R.F_RESPOND)]
                exp = []
                j = 1
                while ts + j * c17.PERIOD <= stop - EPS:
                    exp.append(ts + j * c17.PERIOD)
                    j += 1
                got = [x for x in sends if x <= stop - EPS and x > ts + EPS]
                if len(got) < len(exp) or any(abs(a - b_) > 1e-6 for a, b_ in zip(got, exp)):
                    out.append(('C15.periodic-emission', 'C15.periodic-emission | after-reconnect | connection=%d' % k,
                                'connection %d (taken from the provider at t=%.3f, in use until t=%.3f): respond-flagged KEEPALIVEs at %s, expected at %s' % (
                                    k, ts, stop, [round(x, 3) for x in got], [round(x, 3) for x in exp])))
                mute = next((times[i] for i, ev in enumerate(log) if i > setup and ev[0] == 'mute' and ev[1] in (c.cname, c.sname)), None)
                if mute is not None and end > mute + 2 * c17.LIFE + EPS:
                    lost = any(ev[0] in ('eof', 'rst', 'close') and ev[1] in (c.cname, c.sname) for ev in log) or any(
                        ev[0] == 'reconnect-requested' and ts < times[i] <= mute for i, ev in enumerate(log))
                    if not lost and not any(ts < T <= mute + 2 * c17.LIFE + EPS for T in timeouts):
                        out.append(('C15.timeout-detected', 'C15.timeout-detected | after-reconnect | connection=%d' % k,
                                    'server %d fell silent at t=%.3f (connection set up at %.3f); no on_keepalive_timeout by t=%.3f; invocations %s' % (
                                        k, mute, ts, mute + 2 * c17.LIFE, [round(x, 3) for x in timeouts])))
            return out

    p = params or {'cause': 'mute', 'trigger': 'on_timeout', 'rounds': 2, 'alts': [], 'modes': ['Q']}
    return ReconnectKeepalive(p['cause'], p['trigger'], p['rounds'], tuple(p['alts']), tuple(p['modes']))


def make_units(tier):
    units = [{'kind': 'echo'}, {'kind': 'echo-seq', 'tier': tier}]
    bound = 3 if tier == 'quick' else 4
    for (p, L) in CONFIGS:
        for flavour in ('tcp', 'msg'):
            K = 16 if tier == 'quick' else 32
            for k in range(K):
                units.append({'kind': 'pattern', 'period': p, 'life': L, 'flavour': flavour, 'bound': bound, 'shard': [k, K]})
        # the server additionally sends its own respond-flagged KEEPALIVE every 0.7 lifetimes
        for k in range(4):
            units.append({'kind': 'pattern', 'period': p, 'life': L, 'flavour': 'tcp', 'bound': bound - 1, 'shard': [k, 4], 'beat': 0.7})
    for k in range(16):
        units.append({'kind': 'reconnect', 'bound': 2, 'shard': [k, 16]})
    return units


def run_unit(unit, part):
    if unit['kind'] == 'echo-seq':
        echo_sequences(part, unit['tier'])
        part.sample({'kind': 'echo-sequences', 'max_len': 3 if unit['tier'] == 'quick' else 4})
        return
    if unit['kind'] == 'reconnect':
        from mc.explore import dev_explore
        return dev_explore(reconnect_scenario(), unit['bound'], part, shard=tuple(unit['shard']), det_every=100)
    if unit['kind'] == 'echo':
        echo_cases(part)
        part.sample({'kind': 'echo', 'respond': [False, True], 'data_lengths': [0, 1, 300], 'positions': [0, 2 ** 63 - 1]})
        return
    explore(unit['period'], unit['life'], unit['flavour'], unit['bound'], part, tuple(unit['shard']), unit.get('beat'))


def replay(rec):
    w = rec['witness']
    if w.get('scenario') == 'reconnect':
        from mc.explore import replay_witness
        return bool(replay_witness(reconnect_scenario(w['params']), w))
    if w['kind'] == 'echo':
        from mc.runner import Partial
        p = Partial()
        echo_cases(p)
        return rec['signature'] in p.violations
    if w['kind'] == 'echo-seq':
        from mc.world import inject
        s = Solo(w['role'], w['flavour'])
        mark = len(s.log)
        seq = [(r, bytes.fromhex(d)) for r, d in w['seq']]
        for r, d in seq:
            if w['batch']:
                inject(s.w, s.inn, R.enc_keepalive(r, d, 0))
            else:
                s.peer(R.enc_keepalive(r, d, 0))
        if w['batch']:
            s.deliver('Q')
        got = [(bool(f.flags & R.F_RESPOND), bytes(f.data or b'')) for f in s.sent(mark)]
        want = [(False, d) for r, d in seq if r]
        print('sent    :', seq)
        print('answers :', got)
        print('expected:', want)
        s.teardown()
        return got != want
    prefix = [[c[0], c[1]] for c in w['choices']]
    ch, sends, recvs, timeouts, horizon = run_pattern(w['period'], w['life'], w['flavour'], prefix, w.get('beat'))
    print('pattern:', [c[1] for c in ch.spelled()])
    print('KEEPALIVE sent at', sends)
    print('KEEPALIVE received at', recvs)
    print('on_keepalive_timeout at', timeouts)
    v = judge(w['period'], w['life'], sends, recvs, timeouts, horizon)
    for x in v:
        print('violation:', x)
    return bool(v)
