"""C16 Setup handshake: (a) product of client configurations -> decoded SETUP; (b) DEV: requests issued while the
transport is connecting, SETUP must still be the first and only SETUP; (c) product of SETUP/RESUME inputs to a server."""
import itertools
from datetime import timedelta

from mc import refwire as R
from mc.app import RecSubscriber, RecPublisher, P, watch_future, AppRaise
from mc.explore import Scenario, dev_explore, replay_witness
from mc.solo import Solo
from mc.world import World, Step, start_client, start_server

RULE = ('(a) PROD: keep-alive x max-lifetime in {1ms,250ms,500ms,1s,1.5s,2.25s,10min,24d} x encodings {well-known enum, its name '
        'as str, as bytes, custom 1-byte, custom 127-byte} x setup payload {none,data,metadata,both,300B} x lease flag x fragment '
        'size x link: decoded SETUP == configuration; (b) DEV: transport connect() returning at once or suspending behind a gate, '
        'provider yielding late, each of the five request kinds issued as application events from the moment connect() has started, '
        'all schedules with <= bound deviations: the first frame on the transport is SETUP and it is the only SETUP; (c) PROD: '
        'SETUP with every combination of resume flag, lease flag, lease publisher present, on_setup ok/raising, and a RESUME frame: '
        'on_setup exactly once for an acceptable SETUP, otherwise exactly one ERROR on stream 0 with the matching code; '
        'non-trivial = case with a sub-second period, a custom encoding, a request issued before the gate opened, or a rejected setup')
EXPLANATION = 'exhaustive products of configuration alphabets + deviation-bounded schedule exploration for the connect race'
ASSUMPTIONS = ['only whole-millisecond periods are used, so no rounding convention is assumed']
BUDGET_S = {'quick': 240, 'thorough': 2400}

PERIODS_MS = (1, 250, 500, 1000, 1500, 2250, 600000, 24 * 24 * 3600 * 1000)
PAYLOADS = {'none': None, 'data': (b'dd', None), 'metadata': (None, b'mm'), 'both': (b'dd', b'mm'), 'big': (bytes(range(256)) + b'x' * 44, b'm')}


def encodings():
    from rsocket.extensions.mimetypes import WellKnownMimeTypes
    return {'enum': (WellKnownMimeTypes.APPLICATION_CBOR, b'application/cbor'),
            'enum-composite': (WellKnownMimeTypes.MESSAGE_RSOCKET_COMPOSITE_METADATA, b'message/x.rsocket.composite-metadata.v0'),
            'str': ('text/plain', b'text/plain'), 'bytes': (b'application/json', b'application/json'),
            'custom1': (b'z', b'z'), 'custom127': (b'c' * 127, b'c' * 127),
            # a MIME name is a length-prefixed byte string on the wire: bytes outside ASCII travel unchanged
            'custom-nonascii': (b'text/x-caf\xc3\xa9', b'text/x-caf\xc3\xa9')}


def bounds(tier):
    return {'periods_ms': list(PERIODS_MS), 'encodings': sorted(encodings()), 'payloads': sorted(PAYLOADS), 'lease': [False, True],
            'fragment_sizes': [None, 64], 'race_bound': 2 if tier == 'quick' else 3}


# ---- (a) ------------------------------------------------------------------------------------------------------------
def fidelity_case(flavour, ka, lt, dname, mname, pname, lease, fs, part, pub=False):
    from rsocket.payload import Payload
    enc = encodings()
    payload = None if PAYLOADS[pname] is None else Payload(*PAYLOADS[pname])
    s = Solo('client', flavour, keep_alive_period=timedelta(milliseconds=ka), max_lifetime_period=timedelta(milliseconds=lt),
             data_encoding=enc[dname][0], metadata_encoding=enc[mname][0], setup_payload=payload, honor_lease=lease,
             fragment_size_bytes=fs, **({'lease_publisher': __import__('rsocket.lease', fromlist=['SingleLeasePublisher']).SingleLeasePublisher()} if pub else {}))
    try:
        frames = s.sent()
        part.evaluations += 1
        part.traces += 1
        part.transitions += 1
        wit = {'kind': 'fidelity', 'flavour': flavour, 'ka': ka, 'lt': lt, 'd': dname, 'm': mname, 'p': pname, 'lease': lease, 'fs': fs, 'pub': pub}
        if not frames or frames[0].type != R.SETUP or sum(1 for f in frames if f.type == R.SETUP) != 1:
            part.violate('C16.setup-first', 'C16.setup-first | fidelity-run', 'frames after connect: %s' % frames, wit)
            return
        f = frames[0]
        part.state((f.keepalive_ms, f.lifetime_ms, f.data_mime, f.metadata_mime, f.flags, len(f.data or b''), len(f.metadata or b'')))
        want_d, want_m = (PAYLOADS[pname] or (None, None))
        checks = [('version', (f.major, f.minor), (1, 0), 'any'),
                  ('keep_alive_ms', f.keepalive_ms, ka, 'sub-second' if ka % 1000 else 'whole-seconds'),
                  ('max_lifetime_ms', f.lifetime_ms, lt, 'sub-second' if lt % 1000 else 'whole-seconds'),
                  ('data_mime', f.data_mime, enc[dname][1], dname), ('metadata_mime', f.metadata_mime, enc[mname][1], mname),
                  ('lease_flag', bool(f.flags & R.F_LEASE), lease, 'with-own-lease-publisher' if pub else 'any'), ('resume_flag', bool(f.flags & R.F_RESUME), False, 'any'),
                  ('data', bytes(f.data or b''), want_d or b'', pname), ('metadata', bytes(f.metadata or b''), want_m or b'', pname),
                  ('stream_id', f.sid, 0, 'any')]
        for name, got, want, cls in checks:
            if got != want:
                part.violate('C16.setup-fidelity', 'C16.setup-fidelity | %s | %s' % (name, cls),
                             'SETUP field %s is %r, configured %r' % (name, got if not isinstance(got, bytes) else got[:40], want if not isinstance(want, bytes) else want[:40]), wit)
        if ka % 1000 or lt % 1000 or dname.startswith('custom') or mname.startswith('custom'):
            part.nontriv(tuple(sorted(wit.items())))
        # SETUP precedes every other frame - and other frames do follow it: a request made next goes out (with lease honoured
        # it waits for a LEASE, so this is judged without)
        if not lease:
            from mc.app import P
            mark = len(s.log)
            s.sock.fire_and_forget(P(b'after-setup'))
            s.settle()
            after = [f for f in s.sent(mark) if f.type == R.REQUEST_FNF]
            if len(after) != 1:
                part.violate('C16.setup-first', 'C16.setup-first | nothing-follows-setup | %s/%s' % (dname if dname.startswith('custom') else 'std', mname if mname.startswith('custom') else 'std'),
                             'a fire-and-forget issued after connect produced %s' % s.sent(mark), wit)
    finally:
        s.teardown()


# ---- (b) ------------------------------------------------------------------------------------------------------------
class ConnectRace(Scenario):
    def __init__(self, flavour, gate, late_provider, kinds, lease=False):
        self.name = 'connect-race'
        self.params = {'flavour': flavour, 'gate': gate, 'late_provider': late_provider, 'kinds': list(kinds), 'lease': lease}
        self.world_kw = {'alts': ('all',), 'modes': ('Q', '0')}
        self.flavour, self.gate, self.late, self.kinds, self.lease = flavour, gate, late_provider, kinds, lease

    def setup(self, w):
        from rsocket.rsocket_client import RSocketClient
        from rsocket.helpers import create_future
        from rsocket.payload import Payload
        from mc.app import RecHandler
        conn = w.new_conn(self.flavour, connect_gate=self.gate)
        beh = {'request_response': lambda h, p: create_future(Payload(b'ok')),
               'request_stream': lambda h, p: RecPublisher(w, h.ep, 'pub'),
               'request_channel': lambda h, p: (RecPublisher(w, h.ep, 'pub'), RecSubscriber(w, h.ep, 'chsub'))}
        start_server(w, conn, beh)
        w.objs['provider_gate'] = None

        async def provider():
            if self.late:
                w.objs['provider_gate'] = w.loop.create_future()
                await w.objs['provider_gate']
            w.logev(('provide', conn.cname))
            yield conn.ct

        client = RSocketClient(provider(), handler_factory=lambda: RecHandler(w, 'c0'), honor_lease=False)
        w.client = client
        w.objs['started'] = False

        def do_connect(w):
            w.objs['started'] = True
            w.connect_task = w.loop.create_task(client.connect())

        w.add_actor('conn', [Step('connect', do_connect)])

        def pgate(w):
            g = w.objs['provider_gate']
            return [(('gate', 'provider'), lambda: g.set_result(None))] if (g is not None and not g.done()) else []

        w.extra_events.append(pgate)
        steps = []
        for i, kind in enumerate(self.kinds):
            def fn(w, kind=kind, i=i):
                if kind == 'rr':
                    w.objs['f%d' % i] = watch_future(w, 'c0', 'fut%d' % i, client.request_response(P(b'q%d' % i)))
                elif kind == 'fnf':
                    client.fire_and_forget(P(b'q%d' % i))
                elif kind == 'push':
                    client.metadata_push(b'm%d' % i)
                elif kind == 'stream':
                    client.request_stream(P(b'q%d' % i)).initial_request_n(1).subscribe(RecSubscriber(w, 'c0', 'sub%d' % i))
                else:
                    client.request_channel(P(b'q%d' % i), RecPublisher(w, 'c0', 'cp%d' % i)).initial_request_n(1).subscribe(RecSubscriber(w, 'c0', 'csub%d' % i))
                w.objs['early'] = w.objs.get('early') or not any(ev[0] == 'tx' and ev[1] == 'c0' for ev in w.log)

            # enabled from the moment connect() has started (the send queue exists from then on)
            steps.append(Step('%s%d' % (kind, i), fn, guard=lambda w: hasattr(client, '_send_queue')))
        w.add_actor('app', steps)

    def check(self, w):
        out = []
        tx = [ev[2] for ev in w.log if ev[0] == 'tx' and ev[1] == 'c0']
        kinds = '+'.join(self.kinds)
        if tx:
            if tx[0].type != R.SETUP:
                out.append(('C16.setup-first', 'C16.setup-first | %s-before-SETUP | gate=%s late-provider=%s' % (tx[0].name, self.gate, self.late),
                            'first frames on the new transport: %s' % tx[:4]))
            n = sum(1 for f in tx if f.type == R.SETUP)
            if n != 1:
                out.append(('C16.setup-once', 'C16.setup-once | n=%d' % n, '%d SETUP frames on one connection: %s' % (n, tx[:6])))
        elif w.objs['started']:
            out.append(('C16.setup-first', 'C16.setup-first | nothing-sent', 'connect() ran but nothing was sent'))
        return out

    def nontrivial(self, w):
        return bool(w.objs.get('early'))

    def outcome(self, w):
        return tuple(ev[2].type for ev in w.log if ev[0] == 'tx' and ev[1] == 'c0')


RAISING = (False, 'app', 'protocol-rejected', 'protocol-invalid', 'application-error', 'protocol-connection-error', 'key-error', 'after-await')


def make_setup_exc(kind):
    """What on_setup raises: a plain exception, or the library's own exception types (what a handler gets when a call it made
    to another RSocket service was answered with ERROR) - the answer must be REJECTED_SETUP either way."""
    from rsocket.exceptions import RSocketProtocolError, RSocketApplicationError
    from rsocket.error_codes import ErrorCode
    if kind in (True, 'app', 'after-await'):
        return AppRaise('on_setup rejects')
    if kind == 'protocol-rejected':
        return RSocketProtocolError(ErrorCode.REJECTED, data='upstream rejected')
    if kind == 'protocol-invalid':
        return RSocketProtocolError(ErrorCode.INVALID, data='upstream invalid')
    if kind == 'protocol-connection-error':
        return RSocketProtocolError(ErrorCode.CONNECTION_ERROR, data='upstream connection error')
    if kind == 'application-error':
        return RSocketApplicationError('upstream application error')
    return KeyError(('no', 'text'))


# ---- (c) ------------------------------------------------------------------------------------------------------------
def server_case(flavour, resume, lease, publisher, raising, frame_kind, part, mimes=(b'text/plain', b'message/x.rsocket.routing.v0')):
    from rsocket.lease import SingleLeasePublisher
    from mc.app import pl
    calls = []
    seen = []

    def on_setup(h, p):
        calls.append(1)
        seen.append(pl(p))
        if raising == 'after-await':
            async def later():
                import asyncio
                await asyncio.sleep(0)
                raise make_setup_exc(raising)
            return later()
        if raising:
            raise make_setup_exc(raising)

    s = Solo('server', flavour, beh={'on_setup': on_setup}, setup=False,
             lease_publisher=SingleLeasePublisher(maximum_request_count=3) if publisher else None)
    try:
        if frame_kind == 'setup':
            raw = R.enc_setup(data=b'sd', metadata=b'sm', lease=lease, resume_token=b'tok' if resume else None,
                              data_mime=mimes[0], metadata_mime=mimes[1])
        else:
            raw = R.enc_resume()
        s.peer(raw)
        part.evaluations += 1
        part.traces += 1
        part.transitions += 1
        frames = s.sent()
        errs = [f for f in frames if f.type == R.ERROR]
        part.state((frame_kind, resume, lease, publisher, raising, tuple((f.type, f.sid, f.error_code) for f in frames)))
        part.outcome(tuple((f.type, f.error_code) for f in frames))
        wit = {'kind': 'server', 'flavour': flavour, 'resume': resume, 'lease': lease, 'publisher': publisher, 'raising': raising, 'frame': frame_kind,
               'mimes': [mimes[0].hex(), mimes[1].hex()]}
        if frame_kind == 'resume':
            want = 0x004
        elif resume:
            want = 0x002
        elif lease and not publisher:
            want = 0x002
        elif raising:
            want = 0x003
        else:
            want = None
        ctx = '%s resume=%s lease=%s publisher=%s on_setup-%s%s' % (frame_kind, resume, lease, publisher, ('raises' if raising in (True, 'app') else 'raises-' + raising) if raising else 'ok',
                                                                   '' if mimes[0] == b'text/plain' else ' mime=%s' % MIME_NAMES.get(mimes, 'other'))
        if want is None:
            if len(calls) != 1:
                part.violate('C16.on-setup-once', 'C16.on-setup-once | calls=%d | %s' % (len(calls), ctx), 'acceptable SETUP: on_setup invoked %d times' % len(calls), wit)
            if errs:
                part.violate('C16.accepts-valid-setup', 'C16.accepts-valid-setup | %s' % ctx, 'acceptable SETUP answered with %s' % errs, wit)
            got = [ev[4] for ev in s.api('handler') if ev[3] == 'on_setup']
            want = (mimes[0], mimes[1], (b'sd', b'sm'))
            if got and got[0] != want:
                part.violate('C16.on-setup-once', 'C16.on-setup-once | arguments | %s' % ctx, 'on_setup received %s, the SETUP carried %s' % (got[0], want), wit)
        else:
            part.nontriv(ctx)
            if len(errs) != 1 or errs[0].sid != 0 or errs[0].error_code != want:
                part.violate('C16.rejects-with-matching-code', 'C16.rejects-with-matching-code | want=0x%03x | %s' % (want, ctx),
                             'expected exactly one ERROR[0] code 0x%03x, saw %s' % (want, frames), wit)
            if want != 0x003 and calls:
                part.violate('C16.on-setup-once', 'C16.on-setup-once | called-for-rejected | %s' % ctx, 'on_setup invoked for an unsupported setup', wit)
    finally:
        s.teardown()


MIME_NAMES = {(b'z', b'y'): 'one-byte', (b'text/x-caf\xc3\xa9', b'\xff\xfe\x00'): 'non-ascii', (b'd' * 127, b'm' * 127): '127-bytes',
              (b'application/json', b'application/json'): 'same'}


def make_units(tier):
    units = []
    from mc.links import ALL_FLAVOURS
    for flavour in ALL_FLAVOURS:
        for lease in (False, True):
            units.append({'kind': 'fidelity', 'flavour': flavour, 'lease': lease, 'tier': tier})
        units.append({'kind': 'server', 'flavour': flavour})
    bound = 2 if tier == 'quick' else 3
    kind_sets = [('rr',), ('fnf',), ('push',), ('stream',), ('channel',), ('rr', 'stream'), ('push', 'fnf')]
    if tier == 'thorough':
        kind_sets += [('channel', 'rr'), ('stream', 'fnf', 'rr')]
    for flavour in ALL_FLAVOURS:
        for gate in (False, True):
            for late in (False, True):
                for kinds in kind_sets:
                    units.append({'kind': 'race', 'flavour': flavour, 'gate': gate, 'late': late, 'kinds': list(kinds), 'bound': bound})
    return units


def run_unit(unit, part):
    if unit['kind'] == 'fidelity':
        encs = sorted(encodings())
        for ka, lt in itertools.product(PERIODS_MS, PERIODS_MS):
            # periods x a rotating slice of the other dimensions; the other dimensions fully with two period pairs
            i = PERIODS_MS.index(ka) * len(PERIODS_MS) + PERIODS_MS.index(lt)
            fidelity_case(unit['flavour'], ka, lt, encs[i % len(encs)], encs[(i // 2) % len(encs)], sorted(PAYLOADS)[i % len(PAYLOADS)], unit['lease'], (None, 64)[i % 2], part)
        for dname, mname, pname, fs in itertools.product(encs, encs, sorted(PAYLOADS), (None, 64)):
            fidelity_case(unit['flavour'], 500, 1500, dname, mname, pname, unit['lease'], fs, part)
            # the client's own lease publisher (its responder side) does not change what SETUP says about honouring leases
            fidelity_case(unit['flavour'], 500, 1500, dname, mname, pname, unit['lease'], fs, part, pub=True)
            if unit['tier'] == 'thorough':
                fidelity_case(unit['flavour'], 2250, 250, dname, mname, pname, unit['lease'], fs, part)
        part.sample({'kind': 'fidelity', 'link': unit['flavour'], 'lease': unit['lease'], 'periods_ms': list(PERIODS_MS)}, limit=1)
    elif unit['kind'] == 'server':
        for resume, lease, publisher in itertools.product((False, True), repeat=3):
            for raising in RAISING:
                server_case(unit['flavour'], resume, lease, publisher, raising, 'setup', part)
        for publisher in (False, True):
            for raising in RAISING[:3]:
                server_case(unit['flavour'], False, False, publisher, raising, 'resume', part)
        for mimes in MIME_NAMES:
            for lease, publisher in ((False, False), (True, True), (True, False)):
                for raising in RAISING[:2]:
                    server_case(unit['flavour'], False, lease, publisher, raising, 'setup', part, mimes)
        part.sample({'kind': 'server-inputs', 'link': unit['flavour']}, limit=1)
    else:
        scn = ConnectRace(unit['flavour'], unit['gate'], unit['late'], tuple(unit['kinds']))
        dev_explore(scn, unit['bound'], part, det_every=100)


def scenario_from(name, params):
    return ConnectRace(params['flavour'], params['gate'], params['late_provider'], tuple(params['kinds']), params.get('lease', False))


def replay(rec):
    from mc.runner import Partial
    w = rec['witness']
    if w.get('kind') == 'fidelity':
        p = Partial()
        fidelity_case(w['flavour'], w['ka'], w['lt'], w['d'], w['m'], w['p'], w['lease'], w['fs'], p, w.get('pub', False))
        for v in p.violations.values():
            print(v.detail)
        return bool(p.violations)
    if w.get('kind') == 'server':
        p = Partial()
        server_case(w['flavour'], w['resume'], w['lease'], w['publisher'], w['raising'], w['frame'], p,
                    tuple(bytes.fromhex(x) for x in w['mimes']) if w.get('mimes') else (b'text/plain', b'message/x.rsocket.routing.v0'))
        for v in p.violations.values():
            print(v.detail)
        return bool(p.violations)
    return bool(replay_witness(scenario_from(w['scenario'], w['params']), w))
