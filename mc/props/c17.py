"""C17 Reconnect: real client with a provider of several simulated transports, each linked to its own real server;
the previous connection ends by every cause, reconnect() is requested from on_close / on_keepalive_timeout / as a free
application event at every choice point."""
from datetime import timedelta

from mc import refwire as R
from mc.app import RecSubscriber, RecPublisher, RecHandler, P, watch_future
from mc.explore import Scenario, dev_explore, replay_witness
from mc.world import Step, start_client, start_server

RULE = ('DEV with fault budget 1 under a virtual clock: real client, provider yielding up to 3 transports each linked to its own '
        'real server; a late request-response and a stream are pending; cause of the end of the connection in {server EOF, read '
        'error, read error+write failure, server falls silent (keepalive timeout), none (healthy)} placed at every choice point; '
        'reconnect() requested from on_close, from on_keepalive_timeout or as a free application event at every choice point; up to 2 '
        '(thorough 3) consecutive reconnects; oracle: old transport closed, requests pending on it failed, next transport taken, '
        'first frame on it a fresh SETUP (only one), first stream id 1, a KEEPALIVE within one period, a probe request issued '
        'afterwards answered; non-trivial = execution in which a reconnect was requested while a request was pending')
EXPLANATION = 'stateless deviation-bounded exploration with explicit fault and timer events; all timers on the virtual clock'
ASSUMPTIONS = ['TransportTCP and the QUIC transport only (connection loss must be reported by the transport)']
BUDGET_S = {'quick': 300, 'thorough': 3600}

PERIOD, LIFE = 0.5, 1.0
SRV_BODY = bytes(range(65, 91)) * 6  # 156 bytes: three fragments at the servers' fragment size of 64


class Reconnect(Scenario):
    def __init__(self, cause, trigger, rounds=1, alts=(), modes=('Q',), lease=False, flavour='tcp', gate=False, channel=False, slow_close=False, srv_req=False, client_lease=False):
        self.name = 'reconnect'
        self.client_lease = client_lease  # leases in both directions: the client grants one on every connection, the servers' own requests wait for it
        srv_req = srv_req or client_lease
        self.cause, self.trigger, self.rounds, self.lease = cause, trigger, rounds, lease
        self.flavour = flavour
        self.slow_close = slow_close  # the application's on_close keeps awaiting (clean-up work) after asking for the reconnect
        self.channel = channel  # a channel whose local publisher still has credit is open when the connection ends
        self.srv_req = srv_req  # every server sends the client a fragmented request of its own (stream id 2 on each connection)
        self.gate = gate  # connect() of every later transport suspends until the explorer lets it finish
        self.params = {'cause': cause, 'trigger': trigger, 'rounds': rounds, 'alts': list(alts), 'modes': list(modes), 'lease': lease, 'flavour': flavour, 'gate': gate, 'channel': channel, 'slow_close': slow_close, 'srv_req': srv_req, 'client_lease': client_lease}
        self.world_kw = {'alts': alts, 'modes': modes, 'fault_budget': rounds if cause != 'healthy' else 0, 'horizon': 2.0 * rounds + 1.6, 'step_cap': 900}

    def setup(self, w):
        from rsocket.helpers import create_future
        conns = [w.new_conn(self.flavour, connect_gate=(self.gate and i > 0)) for i in range(self.rounds + 1)]
        w.objs['conns'] = conns
        late = w.objs['late'] = {}

        def s_beh(i):
            def rr(h, p):
                d = bytes(p.data or b'')
                if d.startswith(b'late'):
                    f = w.loop.create_future()
                    late[i] = f
                    return f
                return create_future(P(b'R:' + d))

            return {'request_response': rr, 'request_stream': lambda h, p: RecPublisher(w, h.ep, 'pub%d' % i),
                    'request_channel': lambda h, p: (RecPublisher(w, h.ep, 'chpub%d' % i), RecSubscriber(w, h.ep, 'chsub%d' % i, request_on_subscribe=5))}

        for i, c in enumerate(conns):
            if self.lease:
                # the first server never grants a lease (requests stay parked in the client); later servers grant 5 requests
                from rsocket.lease import SingleLeasePublisher, LeasePublisher
                start_server(w, c, s_beh(i), lease_publisher=LeasePublisher() if i == 0 else SingleLeasePublisher(maximum_request_count=5))
            elif self.client_lease:
                from rsocket.lease import SingleLeasePublisher
                start_server(w, c, s_beh(i), fragment_size_bytes=64, honor_lease=True, lease_publisher=SingleLeasePublisher(maximum_request_count=5))
            elif self.srv_req:
                start_server(w, c, s_beh(i), fragment_size_bytes=64)
            else:
                start_server(w, c, s_beh(i))
        trig = self.trigger

        close_gates = w.objs['close_gates'] = []

        def on_close(h, rsocket):
            w.objs['closes'] = w.objs.get('closes', 0) + 1
            want = trig == 'on_close' and w.objs.get('reconnects', 0) < self.rounds
            if want:
                w.objs['reconnects'] = w.objs.get('reconnects', 0) + 1
                w.logev(('reconnect-requested', 'on_close'))
            if self.slow_close:
                async def slow():
                    if want:
                        await rsocket.reconnect()
                    g = w.loop.create_future()
                    close_gates.append(g)
                    await g  # clean-up work that finishes only when the explorer lets it

                return slow()
            if want:
                return rsocket.reconnect()

        if self.slow_close:
            def release(w):
                for g in close_gates:
                    if not g.done():
                        g.set_result(None)

            w.add_actor('closedone', [Step('on_close-finishes%d' % i, release, guard=lambda w: any(not g.done() for g in close_gates)) for i in range(self.rounds + 1)])

        def on_timeout(h, rsocket):
            if trig == 'on_timeout' and w.objs.get('reconnects', 0) < self.rounds:
                w.objs['reconnects'] = w.objs.get('reconnects', 0) + 1
                w.logev(('reconnect-requested', 'on_timeout'))
                return rsocket.reconnect()

        c_beh = {'on_close': on_close, 'on_keepalive_timeout': on_timeout}
        if self.srv_req:
            c_beh['request_response'] = lambda h, p: create_future(P(b'CR:' + bytes(p.data or b'')))
        c_kw = {}
        if self.client_lease:
            from rsocket.lease import SingleLeasePublisher
            c_kw['lease_publisher'] = SingleLeasePublisher(maximum_request_count=5)
        client = start_client(w, conns, c_beh,
                              keep_alive_period=timedelta(seconds=PERIOD), max_lifetime_period=timedelta(seconds=LIFE), honor_lease=self.lease or self.client_lease, **c_kw)
        w.objs['client'] = client
        w.fault_kinds = (self.cause,) if self.cause != 'healthy' else ()
        w.cut_points = 'boundaries'
        w.fault_conns = set(range(self.rounds))  # only connections that are followed by another transport
        st = w.objs['st'] = {}

        def req(w):
            st['fut'] = watch_future(w, 'c', 'futA', client.request_response(P(b'late-A')))
            st['sub'] = RecSubscriber(w, 'c', 'subB')
            client.request_stream(P(b'sB')).initial_request_n(2).subscribe(st['sub'])
            if self.channel:
                st['chsub'] = RecSubscriber(w, 'c', 'subC')
                st['chpub'] = RecPublisher(w, 'c', 'pubC')
                client.request_channel(P(b'sC'), st['chpub']).initial_request_n(2).subscribe(st['chsub'])

        if self.channel:
            # the application keeps feeding its channel publisher for as long as nobody cancelled it
            def emit(w, i):
                st['chpub'].emit(P(b'up%d' % i))

            w.add_actor('chpub', [Step('emit%d' % i, lambda w, i=i: emit(w, i),
                                       guard=lambda w, i=i: 'chpub' in st and st['chpub'].subscriber is not None and not st['chpub'].cancelled
                                       and st['chpub'].requested > i and (i == 0 or self._connected_round(w) >= 1))
                                  for i in range(2)])
        w.add_actor('req', [Step('request', req, guard=lambda w: any(ev[0] == 'tx' and ev[2].type == R.SETUP for ev in w.log))])
        if trig == 'free':
            def rec(w):
                w.objs['reconnects'] = w.objs.get('reconnects', 0) + 1
                w.logev(('reconnect-requested', 'free'))
                w.loop.create_task(client.reconnect())

            steps = [Step('reconnect%d' % k, rec, guard=lambda w, k=k: self._connected_round(w) >= k) for k in range(self.rounds)]
            w.add_actor('rc', steps)

        if self.srv_req:
            def srv_request(w, i):
                st['srv%d' % i] = watch_future(w, 's', 'srvreq%d' % i, conns[i].server.request_response(P(SRV_BODY + b'%d' % i)))

            w.add_actor('srvreq', [Step('srvreq%d' % i, lambda w, i=i: srv_request(w, i),
                                        guard=lambda w, i=i: any(ev[0] == 'rx' and ev[1] == conns[i].sname and ev[2].type == R.SETUP for ev in w.log))
                                   for i in range(self.rounds + 1)])

        def probe(w, k):
            st['probe%d' % k] = watch_future(w, 'c', 'probe%d' % k, client.request_response(P(b'probe%d' % k)))

        w.add_actor('probe', [Step('probe%d' % k, lambda w, k=k: probe(w, k), guard=lambda w, k=k: self._connected_round(w) >= k)
                              for k in range(1, self.rounds + 1)])

    def _connected_round(self, w):
        """Index of the newest transport on which SETUP was written."""
        r = -1
        for i, c in enumerate(w.objs['conns']):
            if any(ev[0] == 'tx' and ev[1] == c.cname and ev[2].type == R.SETUP for ev in w.log):
                r = i
        return r

    def check(self, w):
        out = []
        log = w.log
        conns = w.objs['conns']
        n_req = sum(1 for ev in log if ev[0] == 'reconnect-requested')
        tag = '%s/%s' % (self.cause, self.trigger)
        st = w.objs['st']
        for k in range(min(n_req, self.rounds)):
            old, new = conns[k], conns[k + 1]
            ri = [i for i, ev in enumerate(log) if ev[0] == 'reconnect-requested'][k]
            ctx = '%s | round=%d' % (tag, k + 1)
            if old.cw.close_calls < 1:
                out.append(('C17.old-transport-closed', 'C17.old-transport-closed | %s' % ctx, 'close() was never called on transport %d' % k))
            if not any(ev[0] == 'provide' and ev[1] == new.cname for ev in log):
                out.append(('C17.next-transport-taken', 'C17.next-transport-taken | %s' % ctx, 'the provider was not asked for transport %d' % (k + 1)))
                continue
            tx = [(i, ev[2]) for i, ev in enumerate(log) if ev[0] == 'tx' and ev[1] == new.cname]
            faulted = any(ev[0] in ('eof', 'rst', 'mute') and ev[1] in (new.cname, new.sname) for ev in log)
            if faulted and not tx:
                continue  # the next transport was dead on arrival: nothing can be demanded of it
            if not tx or tx[0][1].type != R.SETUP:
                out.append(('C17.fresh-setup', 'C17.fresh-setup | %s | first=%s' % (ctx, tx[0][1].name if tx else 'nothing'),
                            'first frames on transport %d: %s' % (k + 1, [f for _, f in tx[:4]])))
            elif sum(1 for _, f in tx if f.type == R.SETUP) != 1:
                out.append(('C17.fresh-setup', 'C17.fresh-setup | %s | several' % ctx, 'more than one SETUP on transport %d' % (k + 1)))
            reqs = [f for _, f in tx if f.type in R.REQUEST_TYPES]
            if reqs and reqs[0].sid != 1:
                out.append(('C17.stream-ids-restart', 'C17.stream-ids-restart | %s | first-id=%d' % (ctx, reqs[0].sid),
                            'first request on transport %d uses stream id %d' % (k + 1, reqs[0].sid)))
            # keepalive within one period of the SETUP
            if tx:
                t_setup = self._time_at(log, tx[0][0])
                t_end = w.loop.time()
                kas = [self._time_at(log, i) for i, f in tx if f.type == R.KEEPALIVE and (f.flags & R.F_RESPOND)]
                lost_again = any(ev[0] in ('eof', 'rst', 'close', 'mute') and ev[1] in (new.cname, new.sname) for ev in log) or k + 1 < n_req
                if t_setup + PERIOD + 1e-6 <= t_end and not lost_again:
                    if not kas or kas[0] > t_setup + PERIOD + 1e-6:
                        out.append(('C17.keepalives-restart', 'C17.keepalives-restart | %s' % ctx,
                                    'SETUP on transport %d at t=%.3f, first KEEPALIVE at %s (period %.1f, now %.3f)' % (k + 1, t_setup, kas[:1], PERIOD, t_end)))
            # probe issued after the reconnect is answered
            pr = st.get('probe%d' % (k + 1))
            if pr is not None and k + 1 >= min(n_req, self.rounds) and not any(ev[0] in ('eof', 'rst', 'mute') and ev[1] in (new.cname, new.sname) for ev in log):
                if pr['state'] != 'result' or pr['value'] != (b'R:probe%d' % (k + 1), b''):
                    out.append(('C17.requests-served-after-reconnect', 'C17.requests-served-after-reconnect | %s | %s' % (ctx, pr['state']),
                                'probe issued after reconnect %d ended as %s %s' % (k + 1, pr['state'], pr['value'])))
            # the new server's own (fragmented) request - the same stream id as the previous server's - is served by the client
            sr = st.get('srv%d' % (k + 1))
            if sr is not None and k + 1 >= min(n_req, self.rounds) and not any(ev[0] in ('eof', 'rst', 'mute') and ev[1] in (new.cname, new.sname) for ev in log):
                if sr['state'] != 'result' or sr['value'] != (b'CR:' + SRV_BODY + b'%d' % (k + 1), b''):
                    out.append(('C17.requests-served-after-reconnect', 'C17.requests-served-after-reconnect | %s | server-request | %s' % (ctx, sr['state']),
                                'the request of server %d to the client ended as %s %s' % (k + 1, sr['state'], str(sr['value'])[:120])))
            # requests pending on the old transport are failed
            if k == 0:
                issued = next((i for i, ev in enumerate(log) if ev[0] == 'act' and ev[1] == 'req'), None)
                dead = next((i for i, ev in enumerate(log) if ev[0] in ('eof', 'rst', 'close') and ev[1] == old.cname), len(log))
                # judged: requests issued while the old connection was still up and before the reconnect was requested
                if issued is not None and issued < ri and issued < dead:
                    f = st.get('fut')
                    if f is not None and f['state'] == 'pending':
                        out.append(('C17.pending-failed', 'C17.pending-failed | %s | awaitable' % ctx, 'request-response pending on the old connection was never failed'))
                    sub = st.get('sub')
                    if sub is not None and sub.terminal() is None:
                        out.append(('C17.pending-failed', 'C17.pending-failed | %s | subscriber' % ctx, 'stream pending on the old connection was never failed: %s' % [x[0] for x in sub.signals]))
        # nothing of the old connection may be replayed on a new one
        issued_at = next((i for i, ev in enumerate(log) if ev[0] == 'act' and ev[1] == 'req'), None)
        issued_on = (sum(1 for ev in log[:issued_at] if ev[0] == 'provide') - 1) if issued_at is not None else None
        for k in range(1, len(conns)):
            if issued_on is None or issued_on >= k:
                continue  # the application issued these requests on this (or a later) connection
            stale = [ev[4] for ev in log if ev[0] == 'api' and ev[1] == conns[k].sname and ev[2] == 'handler' and ev[3] in ('request_response', 'request_stream')
                     and not bytes(ev[4][0]).startswith(b'probe')]
            if stale:
                out.append(('C17.fresh-connection', 'C17.fresh-connection | %s | stale-request-replayed%s' % (tag, ' | lease' if self.lease else ''),
                            'server %d was asked to serve requests of an earlier connection: %s' % (k, stale)))
        # each later transport carries a self-contained legal conversation: nothing left over from the previous connection
        # (queued frames, REQUEST_N / CANCEL / PAYLOAD of old streams) may appear on it
        from mc import monitors
        for k in range(1, len(conns)):
            for rule, sig, detail in monitors.wire_legality(log, conns[k].cname, 'client'):
                if rule in ('C08.first-frame-is-request', 'C08.setup-first', 'C08.setup-once', 'C08.stream-id-parity'):
                    out.append(('C17.fresh-connection', 'C17.fresh-connection | %s | %s' % (tag, sig.replace('C08.', '')),
                                'on transport %d: %s' % (k, detail)))
        for msg, exc, txt in w.loop.read_exc_log():
            out.append(('C17.no-unhandled-exception', 'C17.no-unhandled-exception | %s | %s' % (tag, exc), '%s: %s' % (msg, txt)))
        return out

    @staticmethod
    def _time_at(log, idx):
        t = 0.0
        for ev in log[:idx + 1]:
            if ev[0] == 't':
                t = ev[1]
        return t

    def nontrivial(self, w):
        ri = next((i for i, ev in enumerate(w.log) if ev[0] == 'reconnect-requested'), None)
        issued = next((i for i, ev in enumerate(w.log) if ev[0] == 'act' and ev[1] == 'req'), None)
        return ri is not None and issued is not None and issued < ri

    def outcome(self, w):
        return (sum(1 for ev in w.log if ev[0] == 'reconnect-requested'), tuple(ev[1] for ev in w.log if ev[0] == 'provide'),
                tuple((k, v['state']) for k, v in sorted(w.objs['st'].items()) if isinstance(v, dict) and 'state' in v))


# ---- reconnect() asked for in the middle of a teardown ----------------------------------------------------------------------
STEP_CAUSES = ('healthy', 'eof', 'rst', 'wr')
STEPS = 16


def reconnect_at_step(flavour, cause, k, twice, part):
    """The DEV scenarios run the loop to quiescence between events, so a reconnect request never lands inside the teardown of the
    previous connection. Here the connection ends by `cause`, the loop runs exactly k iterations, and then the application calls
    reconnect() (twice in a row if `twice`): the next transport is taken, starts with one SETUP, and a request issued afterwards is
    answered; the old transport is closed; requests pending on the old connection have failed."""
    from mc.world import World
    w = World()
    try:
        conns = [w.new_conn(flavour) for _ in range(3)]
        late = []

        def rr(h, p):
            d = bytes(p.data or b'')
            if d.startswith(b'late'):
                f = w.loop.create_future()
                late.append(f)
                return f
            from rsocket.helpers import create_future
            return create_future(P(b'R:' + d))

        for c in conns:
            start_server(w, c, {'request_response': rr})
        client = start_client(w, conns, {}, keep_alive_period=timedelta(seconds=PERIOD), max_lifetime_period=timedelta(seconds=LIFE))

        def pump():
            w.run_q()
            for _ in range(8):
                moved = False
                for c in conns:
                    for d in (c.c2s, c.s2c):
                        if c.stream:
                            if d.pending and d.sink_alive():
                                d.deliver_bytes(len(d.pending))
                                moved = True
                        else:
                            while d.msgs and d.sink_alive():
                                d.deliver_message()
                                moved = True
                w.run_q()
                if not moved:
                    break

        w.run_q()
        pump()
        fut = watch_future(w, 'c', 'futA', client.request_response(P(b'late-A')))
        sub = RecSubscriber(w, 'c', 'subB')
        client.request_stream(P(b'sB')).initial_request_n(1).subscribe(sub)
        pump()
        c0 = conns[0]
        if cause == 'eof':
            c0.s2c.deliver_eof()
        elif cause in ('rst', 'wr'):
            if cause == 'wr':
                c0.c2s.write_error = True
            c0.s2c.deliver_error()
        for _ in range(k):
            w.loop.step()
        w.logev(('reconnect-requested', 'step'))
        w.loop.create_task(client.reconnect())
        if twice:
            w.loop.create_task(client.reconnect())
        w.run_q()
        pump()
        probe = watch_future(w, 'c', 'probe', client.request_response(P(b'probe')))
        pump()
        part.evaluations += 1
        part.traces += 1
        part.transitions += k + 3
        ctx = 'reconnect-at-step | %s%s' % (cause, ' | twice' if twice else '')
        wit = {'kind': 'step', 'flavour': flavour, 'cause': cause, 'k': k, 'twice': twice}
        log = w.log
        provided = [ev[1] for ev in log if ev[0] == 'provide']
        part.state((flavour, cause, twice, tuple(provided), probe['state'], fut['state']))
        part.outcome((tuple(provided), probe['state']))
        if cause != 'healthy':
            part.nontriv((flavour, cause, k, twice))
        out = []
        if c0.cw.close_calls < 1:
            out.append(('C17.old-transport-closed', 'C17.old-transport-closed | %s' % ctx, 'close() was never called on the first transport (k=%d)' % k))
        if len(provided) < 2:
            out.append(('C17.next-transport-taken', 'C17.next-transport-taken | %s' % ctx, 'the provider was asked for %s only (k=%d)' % (provided, k)))
        else:
            new = conns[len(provided) - 1]
            tx = [ev[2] for ev in log if ev[0] == 'tx' and ev[1] == new.cname]
            if not tx or tx[0].type != R.SETUP or sum(1 for f in tx if f.type == R.SETUP) != 1:
                out.append(('C17.fresh-setup', 'C17.fresh-setup | %s' % ctx, 'frames on the newest transport: %s (k=%d)' % ([f.name for f in tx[:5]], k)))
            reqs = [f for f in tx if f.type in R.REQUEST_TYPES]
            if reqs and reqs[0].sid != 1:
                out.append(('C17.stream-ids-restart', 'C17.stream-ids-restart | %s | first-id=%d' % (ctx, reqs[0].sid), 'first request on the newest transport uses stream id %d (k=%d)' % (reqs[0].sid, k)))
            if probe['state'] != 'result' or probe['value'] != (b'R:probe', b''):
                out.append(('C17.requests-served-after-reconnect', 'C17.requests-served-after-reconnect | %s | %s' % (ctx, probe['state']),
                            'request issued after the reconnect ended as %s %s (k=%d, transports taken %s)' % (probe['state'], probe['value'], k, provided)))
        if fut['state'] == 'pending':
            out.append(('C17.pending-failed', 'C17.pending-failed | %s | awaitable' % ctx, 'request-response pending on the old connection was never failed (k=%d)' % k))
        if sub.terminal() is None:
            out.append(('C17.pending-failed', 'C17.pending-failed | %s | subscriber' % ctx, 'stream pending on the old connection was never failed (k=%d)' % k))
        for msg, exc, txt in w.loop.read_exc_log():
            out.append(('C17.no-unhandled-exception', 'C17.no-unhandled-exception | %s | %s' % (ctx, exc), '%s: %s' % (msg, txt)))
        for rule, sig, detail in out:
            part.violate(rule, sig, detail, wit)
    finally:
        w.teardown()


COMBOS = [('eof', 'on_close'), ('eof', 'free'), ('rst', 'on_close'), ('rst', 'free'), ('wr', 'on_close'), ('wr', 'free'),
          ('mute', 'on_timeout'), ('mute', 'free'), ('healthy', 'free')]


def make_units(tier):
    units = []
    for cause, trig in COMBOS:
        K = 8
        for k in range(K):
            units.append({'cause': cause, 'trigger': trig, 'rounds': 1, 'bound': 1 if cause != 'healthy' else 1, 'shard': [k, K], 'alts': []})
        if tier == 'thorough' or (cause, trig) in (('eof', 'on_close'), ('wr', 'on_close'), ('mute', 'on_timeout'), ('healthy', 'free')):
            K = 16
            for k in range(K):
                units.append({'cause': cause, 'trigger': trig, 'rounds': 2, 'bound': 2, 'shard': [k, K], 'alts': []})
    for cause, trig in (('eof', 'on_close'), ('healthy', 'free'), ('mute', 'on_timeout')):
        K = 8
        for k in range(K):
            units.append({'cause': cause, 'trigger': trig, 'rounds': 1, 'bound': 1, 'shard': [k, K], 'alts': [], 'lease': True})
    # transports whose connect() suspends (as the aiohttp client's does): the gate is an explicit environment event
    for cause, trig in COMBOS:
        K = 4
        for k in range(K):
            units.append({'cause': cause, 'trigger': trig, 'rounds': 1, 'bound': 1, 'shard': [k, K], 'alts': [], 'gate': True})
    # the application's on_close handler is still busy (awaiting) while the reconnect is carried out
    for cause, trig in COMBOS:
        if cause in ('healthy', 'mute'):
            continue
        K = 4
        for k in range(K):
            units.append({'cause': cause, 'trigger': trig, 'rounds': 1, 'bound': 1, 'shard': [k, K], 'alts': [], 'slow_close': True})
    # a channel whose requester-side publisher still has credit when the connection ends; the application goes on emitting after the
    # reconnect unless its publisher was cancelled
    for cause, trig in COMBOS:
        K = 4
        for k in range(K):
            units.append({'cause': cause, 'trigger': trig, 'rounds': 1, 'bound': 1, 'shard': [k, K], 'alts': [], 'channel': True})
    # every server sends the client a fragmented request; the connection may end between its fragments
    for cause, trig in COMBOS:
        K = 4
        for k in range(K):
            units.append({'cause': cause, 'trigger': trig, 'rounds': 1, 'bound': 1, 'shard': [k, K], 'alts': [], 'srv_req': True})
    # leases in both directions: the client grants its lease anew on every connection (the servers' own requests wait for it)
    for cause, trig in (('eof', 'on_close'), ('healthy', 'free'), ('mute', 'on_timeout'), ('rst', 'free')):
        K = 4
        for k in range(K):
            units.append({'cause': cause, 'trigger': trig, 'rounds': 1, 'bound': 1, 'shard': [k, K], 'alts': [], 'client_lease': True})
    # the QUIC transport (the other one that reports a lost connection); eof and rst are the same event there
    for cause, trig in COMBOS:
        if cause == 'eof':
            continue
        K = 4
        for k in range(K):
            units.append({'cause': cause, 'trigger': trig, 'rounds': 1, 'bound': 1, 'shard': [k, K], 'alts': [], 'flavour': 'quic'})
    for flavour in ('tcp', 'quic'):
        units.append({'kind': 'step', 'flavour': flavour, 'cause': 'all', 'trigger': 'step', 'rounds': 1, 'bound': 0, 'shard': [0, 1], 'alts': []})
    if tier == 'thorough':
        for cause, trig in (('healthy', 'free'),):
            K = 32
            for k in range(K):
                units.append({'cause': cause, 'trigger': trig, 'rounds': 3, 'bound': 1 if cause == 'healthy' else 3, 'shard': [k, K], 'alts': []})
    return units


def bounds(tier):
    return {'causes_x_triggers': [list(c) for c in COMBOS], 'consecutive_reconnects': 2 if tier == 'quick' else 3, 'period_s': PERIOD, 'lifetime_s': LIFE}


def scenario_of(unit):
    return Reconnect(unit['cause'], unit['trigger'], unit['rounds'], alts=tuple(unit['alts']), lease=unit.get('lease', False), flavour=unit.get('flavour', 'tcp'), gate=unit.get('gate', False), channel=unit.get('channel', False), slow_close=unit.get('slow_close', False), srv_req=unit.get('srv_req', False), client_lease=unit.get('client_lease', False))


def run_unit(unit, part):
    if unit.get('kind') == 'step':
        for cause in STEP_CAUSES:
            for twice in (False, True):
                for k in range(STEPS):
                    reconnect_at_step(unit['flavour'], cause, k, twice, part)
        part.sample({'kind': 'reconnect-at-step', 'link': unit['flavour'], 'causes': list(STEP_CAUSES), 'loop_iterations_before_reconnect': [0, STEPS - 1]}, limit=1)
        return
    dev_explore(scenario_of(unit), unit['bound'], part, shard=tuple(unit['shard']), det_every=100)


def scenario_from(name, params):
    return Reconnect(params['cause'], params['trigger'], params['rounds'], tuple(params['alts']), tuple(params['modes']), params.get('lease', False), params.get('flavour', 'tcp'), params.get('gate', False), params.get('channel', False), params.get('slow_close', False), params.get('srv_req', False), params.get('client_lease', False))


def replay(rec):
    w = rec['witness']
    if w.get('kind') == 'step':
        from mc.runner import Partial
        p = Partial()
        reconnect_at_step(w['flavour'], w['cause'], w['k'], w['twice'], p)
        for v in p.violations.values():
            print(v.rule, '|', v.detail)
        return bool(p.violations)
    return bool(replay_witness(scenario_from(w['scenario'], w['params']), w))
