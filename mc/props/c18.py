"""C18 Extension metadata codecs: complete products of per-entry alphabets, composites of up to 2 (thorough 3)
entries, well-known tables, rejection of over-long names/tags; both codec backends."""
import itertools
import json
import os
import subprocess
import sys

from mc.runner import h64

RULE = ('PROD: entry kinds {routing tags, simple auth, bearer auth, stream data MIME type, accepted MIME types, generic item with '
        'every well-known MIME id, generic item with custom MIME} x alphabets {custom MIME name length 1,2,127,128; tag length '
        '0,1,254,255; tags per entry 0..3; credentials/token in {empty, 1 byte, 255 bytes, non-UTF-8}; content length 0,1,300,65536}; '
        'every single entry, every composite of <=3 (thorough 4) entries over a 3-value slice per kind; decode(encode(x)) == x in the '
        'reference normal form, encode(decode(b)) == b, well-known id<->name tables are mutually inverse and injective, names of 129/200 '
        'bytes and tags of 256/300 bytes are rejected at encode time; the whole table is recomputed in a child process with cbitstruct '
        'blocked; non-trivial = case with a boundary length or >=2 entries; states = distinct encodings')
EXPLANATION = 'exhaustive enumeration of the stated alphabets; reference normal form: MIME -> name bytes, str -> bytes'
ASSUMPTIONS = ['the two sentinel table rows with negative ids (*_DO_NOT_USE) are not wire-representable: excluded from round trips, included in the injectivity check']
BUDGET_S = {'quick': 200, 'thorough': 1800}


def bounds(tier):
    return {'custom_mime_lengths': [1, 2, 127, 128], 'rejected_mime_lengths': [129, 200], 'tag_lengths': [0, 1, 254, 255],
            'rejected_tag_lengths': [256, 300], 'tags_per_entry': [0, 1, 2, 3], 'credential_values': ['empty', '1 byte', '255 bytes', 'non-utf8'],
            'content_lengths': [0, 1, 300, 65536], 'composite_entries': 3 if tier == 'quick' else 4}


def name(n):
    return (b'x-custom/' + b'n' * 200)[:n]


NONUTF = b'\xff\xfe\x80'
CREDS = (b'', b'u', b'p' * 255, NONUTF)
# the user name of simple authentication has a 16-bit length prefix: the values around its byte and sign boundaries
USERS = CREDS + (b'U' * 256, b'U' * 32767, b'U' * 32768, b'U' * 65535)
CONTENTS = (b'', b'\x00', bytes(range(256)) + b'c' * 44, b'\xab' * 65536)
TAGLENS = (0, 1, 254, 255)


def wk():
    from rsocket.extensions.mimetypes import WellKnownMimeTypes
    return [m for m in WellKnownMimeTypes if 0 <= m.value.id <= 127]


SPECIAL = (b'message/x.rsocket.routing.v0', b'message/x.rsocket.mime-type.v0', b'message/x.rsocket.accept-mime-types.v0',
           b'message/x.rsocket.authentication.v0')


def entries(kind):
    """Yield (descriptor, builder) pairs; descriptor is the reference normal form."""
    from rsocket.extensions.helpers import route, authenticate_simple, authenticate_bearer, data_mime_type, data_mime_types, metadata_item
    if kind == 'routing':
        for cnt in range(0, 4):
            for lens in itertools.product(TAGLENS, repeat=cnt):
                tags = [bytes([0x61 + i]) * ln for i, ln in enumerate(lens)]
                yield ('routing', tuple(tags)), (lambda tags=tags: route(*tags))
    elif kind == 'simple':
        for u, p in itertools.product(USERS, CREDS):
            yield ('simple', u, p), (lambda u=u, p=p: authenticate_simple(u, p))
    elif kind == 'bearer':
        for t in CREDS:
            yield ('bearer', t), (lambda t=t: authenticate_bearer(t))
    elif kind == 'datamime':
        for m in wk():
            yield ('datamime', m.value.name), (lambda m=m: data_mime_type(m))
            yield ('datamime', m.value.name), (lambda m=m: data_mime_type(m.value))
        for n in (1, 2, 127, 128):
            yield ('datamime', name(n)), (lambda n=n: data_mime_type(name(n)))
    elif kind == 'acceptmimes':
        from rsocket.extensions.mimetypes import WellKnownMimeTypes
        alpha = [(WellKnownMimeTypes.APPLICATION_JSON, b'application/json'), (WellKnownMimeTypes.TEXT_PLAIN, b'text/plain'),
                 (name(1), name(1)), (name(128), name(128))]
        for cnt in range(0, 4):
            for combo in itertools.product(alpha, repeat=cnt):
                yield ('acceptmimes', tuple(c[1] for c in combo)), (lambda combo=combo: data_mime_types(*[c[0] for c in combo]))
    elif kind == 'generic-wk':
        for m in wk():
            if m.value.name in SPECIAL:
                continue
            for c in CONTENTS:
                yield ('generic', m.value.name, c), (lambda m=m, c=c: metadata_item(c, m))
    elif kind == 'generic-custom':
        for n in (1, 2, 127, 128):
            for c in CONTENTS:
                yield ('generic', name(n), c), (lambda n=n, c=c: metadata_item(c, name(n)))


KINDS = ('routing', 'simple', 'bearer', 'datamime', 'acceptmimes', 'generic-wk', 'generic-custom')


def normal(item):
    """Reference normal form of a decoded entry."""
    from rsocket.extensions.routing import RoutingMetadata
    from rsocket.extensions.authentication_content import AuthenticationContent
    from rsocket.extensions.authentication import AuthenticationSimple, AuthenticationBearer
    from rsocket.extensions.stream_data_mimetype import StreamDataMimetype, StreamDataMimetypes

    def nm(x):
        if hasattr(x, 'value') and hasattr(x.value, 'name'):
            return bytes(x.value.name)
        if hasattr(x, 'name') and hasattr(x, 'id'):
            return bytes(x.name)
        return bytes(x, 'utf-8') if isinstance(x, str) else bytes(x)

    if isinstance(item, RoutingMetadata):
        return ('routing', tuple(nm(t) for t in item.tags))
    if isinstance(item, AuthenticationContent):
        a = item.authentication
        if isinstance(a, AuthenticationSimple):
            return ('simple', bytes(a.username), bytes(a.password))
        if isinstance(a, AuthenticationBearer):
            return ('bearer', bytes(a.token))
        return ('auth?', repr(a))
    if isinstance(item, StreamDataMimetypes):
        return ('acceptmimes', tuple(nm(e) for e in item.data_encodings))
    if isinstance(item, StreamDataMimetype):
        return ('datamime', nm(item.data_encoding))
    return ('generic', nm(item.encoding), bytes(item.content or b''))


def roundtrip(descs, builders):
    """Encode a composite, decode it, re-encode. Returns (result-for-table, violations)."""
    from rsocket.extensions.composite_metadata import CompositeMetadata
    from rsocket.extensions.helpers import composite
    viol = []
    try:
        raw = bytes(composite(*[b_() for b_ in builders]))
    except Exception as e:
        return ('enc-exc', type(e).__name__), [('encode', 'exception-%s' % type(e).__name__, 'encode raised %r' % e)]
    try:
        cm = CompositeMetadata()
        cm.parse(raw)
        got = [normal(i) for i in cm.items]
    except Exception as e:
        return (raw, 'dec-exc', type(e).__name__), [('roundtrip', 'decode-exception-%s' % type(e).__name__, 'decode raised %r' % e)]
    if got != list(descs):
        bad = next((i for i, (a, b_) in enumerate(zip(got, descs)) if a != b_), min(len(got), len(descs)))
        kind = descs[bad][0] if bad < len(descs) else 'extra'
        viol.append(('roundtrip', 'entry-%s' % kind, 'decoded %s, encoded %s' % (_s(got), _s(list(descs)))))
    try:
        raw2 = bytes(cm.serialize())
        if raw2 != raw:
            viol.append(('reencode', 'bytes-differ', 're-encoding decoded metadata changed the bytes (%d -> %d)' % (len(raw), len(raw2))))
    except Exception as e:
        viol.append(('reencode', 'exception-%s' % type(e).__name__, 're-encode raised %r' % e))
    return (raw, tuple(got)), viol


def _s(x):
    r = repr(x)
    return r if len(r) < 160 else r[:160] + '...'


def slice3(kind):
    es = list(entries(kind))
    idx = sorted({0, len(es) // 2, len(es) - 1})
    return [es[i] for i in idx]


def cases(unit):
    """Yield (label, descs, builders)."""
    if unit['kind'] == 'single':
        for i, (d, b_) in enumerate(entries(unit['entry'])):
            yield ('%s#%d' % (unit['entry'], i), [d], [b_])
    else:
        pools = [[(k, e) for e in slice3(k)] for k in KINDS]
        flat = [x for p in pools for x in p]
        first = [x for x in flat if x[0] == unit['entry']]
        n = unit['n']
        for f in first:
            for rest in itertools.product(flat, repeat=n - 1):
                combo = (f,) + rest
                yield ('+'.join(c[0] for c in combo), [c[1][0] for c in combo], [c[1][1] for c in combo])


def table_hashes(unit):
    return [h64(repr(roundtrip(d, b_)[0])) for _, d, b_ in cases(unit)]


def child_table(unit):
    env = dict(os.environ)
    env['PYTHONPATH'] = os.path.dirname(os.path.dirname(os.path.dirname(os.path.abspath(__file__))))
    src = os.environ.get('RSOCKET_SRC')
    code = ('import sys, json\n' + ('sys.path.insert(0, %r)\n' % src if src else '') + 'sys.modules["cbitstruct"] = None\n'
            'from mc.props import c18\nimport rsocket.frame_helpers as H\n'
            'assert "cbitstruct" not in H.unpack_24bit.__code__.co_names\n'
            'json.dump(c18.table_hashes(%r), sys.stdout)\n' % (unit,))
    p = subprocess.run([sys.executable, '-c', code], env=env, stdout=subprocess.PIPE, stderr=subprocess.PIPE, text=True)
    if p.returncode != 0:
        raise RuntimeError('child failed: ' + p.stderr[-2000:])
    return json.loads(p.stdout)


def tables(part):
    from rsocket.extensions.mimetypes import WellKnownMimeTypes
    from rsocket.extensions.authentication_types import WellKnownAuthenticationTypes
    for label, enum in (('mime', WellKnownMimeTypes), ('auth', WellKnownAuthenticationTypes)):
        ids, names = {}, {}
        for m in enum:
            part.evaluations += 1
            part.transitions += 2
            part.traces += 1
            i, n = m.value.id, bytes(m.value.name)
            part.state((label, i, n))
            wit = {'kind': 'tables', 'table': label, 'member': m.name}
            if i in ids:
                part.violate('C18.tables-one-to-one', 'C18.tables-one-to-one | %s | duplicate-id' % label, 'id %d used by %s and %s' % (i, ids[i], m.name), wit)
            if n in names:
                part.violate('C18.tables-one-to-one', 'C18.tables-one-to-one | %s | duplicate-name' % label, 'name %r used by %s and %s' % (n, names[n], m.name), wit)
            ids[i], names[n] = m.name, m.name
            if 0 <= i <= 127:
                try:
                    back = enum.require_by_id(i)
                    back_name = bytes(back.name) if hasattr(back, 'name') and not isinstance(back, bytes) else bytes(back)
                    if back_name != n:
                        part.violate('C18.tables-one-to-one', 'C18.tables-one-to-one | %s | id-to-name' % label, 'id %d maps to %r, table says %r' % (i, back_name, n), wit)
                    fwd = enum.get_by_name(n)
                    fwd_id = fwd.id if hasattr(fwd, 'id') else fwd
                    if fwd_id != i:
                        part.violate('C18.tables-one-to-one', 'C18.tables-one-to-one | %s | name-to-id' % label, 'name %r maps to %r, table says %d' % (n, fwd_id, i), wit)
                except Exception as e:
                    part.violate('C18.tables-one-to-one', 'C18.tables-one-to-one | %s | lookup-exception' % label, 'lookup of %s raised %r' % (m.name, e), wit)
        for i in range(128):
            if i not in ids:
                try:
                    enum.require_by_id(i)
                    part.violate('C18.tables-one-to-one', 'C18.tables-one-to-one | %s | unknown-id-resolves' % label, 'unassigned id %d resolves' % i, {'kind': 'tables'})
                except Exception:
                    pass
        part.nontriv((label, len(ids)))
        part.nontriv((label, 'names', len(names)))


def rejections(part):
    from rsocket.extensions.helpers import composite, route, data_mime_type, data_mime_types, metadata_item
    cases_ = []
    for n in (129, 200):
        cases_.append(('mime-name-%d/generic' % n, lambda n=n: composite(metadata_item(b'c', name(n)))))
        cases_.append(('mime-name-%d/datamime' % n, lambda n=n: composite(data_mime_type(name(n)))))
        cases_.append(('mime-name-%d/acceptmimes' % n, lambda n=n: composite(data_mime_types(name(1), name(n)))))
    for n in (256, 300):
        cases_.append(('tag-%d/first' % n, lambda n=n: composite(route(b't' * n))))
        cases_.append(('tag-%d/second' % n, lambda n=n: composite(route(b'ok', b't' * n))))
        cases_.append(('tag-%d/after-entry' % n, lambda n=n: composite(metadata_item(b'c', name(2)), route(b't' * n))))
    for label, fn in cases_:
        part.evaluations += 1
        part.transitions += 1
        part.traces += 1
        part.nontriv(('reject', label))
        try:
            out = fn()
            part.violate('C18.overlong-rejected', 'C18.overlong-rejected | %s' % label.split('/')[0].rsplit('-', 1)[0] + ' | ' + label.split('/')[1],
                         '%s was encoded to %d bytes instead of being rejected' % (label, len(out)), {'kind': 'reject', 'label': label})
        except Exception:
            pass
        part.state(('reject', label))


def make_units(tier):
    units = [{'kind': 'tables'}]
    for k in KINDS:
        units.append({'kind': 'single', 'entry': k})
        units.append({'kind': 'composite', 'entry': k, 'n': 2})
        units.append({'kind': 'composite', 'entry': k, 'n': 3})
        if tier == 'thorough':
            units.append({'kind': 'composite', 'entry': k, 'n': 4})
    return units


def run_unit(unit, part):
    if unit['kind'] == 'tables':
        tables(part)
        rejections(part)
        part.sample({'kind': 'tables+rejections'})
        return
    hashes = []
    for label, descs, builders in cases(unit):
        res, viol = roundtrip(descs, builders)
        part.evaluations += 1
        part.transitions += 3
        part.traces += 1
        part.state(res[0] if isinstance(res[0], bytes) else repr(res))
        part.outcome(tuple(d[0] for d in descs))
        if len(descs) >= 2 or any(isinstance(x, bytes) and len(x) in (0, 1, 127, 128, 254, 255, 65536) for d in descs for x in (d[1:] if not isinstance(d[1], tuple) else d[1])):
            part.nontriv(label + repr(h64(repr(descs))))
        hashes.append(h64(repr(res)))
        for rule, suffix, detail in viol:
            part.violate('C18.' + rule, 'C18.%s | %s | %s' % (rule, unit['entry'] if unit['kind'] == 'single' else 'composite', suffix),
                         '%s [%s]' % (detail, label), {'kind': unit['kind'], 'unit': unit, 'label': label})
    other = child_table(unit)
    if other != hashes:
        i = next((i for i, (a, b_) in enumerate(zip(hashes, other)) if a != b_), -1)
        part.violate('C18.backend-independence', 'C18.backend-independence | %s' % unit['entry'], 'case #%d differs without cbitstruct' % i, {'kind': 'backend', 'unit': unit})
    part.sample({'unit': unit, 'cases': len(hashes)}, limit=2)


def replay(rec):
    from mc.runner import Partial
    w = rec['witness']
    p = Partial()
    if w['kind'] in ('tables', 'reject'):
        tables(p)
        rejections(p)
    else:
        run_unit(w['unit'], p)
    for v in p.violations.values():
        print(v.rule, '|', v.detail[:300])
    return rec['signature'] in p.violations
