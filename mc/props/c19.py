"""C19 Routed dispatch and authentication gate: complete product of route tables x requests through the real
RoutingRequestHandler coroutines (direct) and through two real endpoints (wire)."""
import itertools

from mc import refwire as R
from mc.app import RecSubscriber, RecPublisher, P, watch_future, pl
from mc.runner import arm_watchdog, disarm_watchdog
from mc.vloop import VLoop

RULE = ('PROD ("programs" = route tables): for the type under test every subset of routes {a,b} x unknown-route handler present/absent, '
        'crossed with the other four types registering {nothing, everything incl. unknown handlers}; handler signatures {(), (payload), '
        '(composite_metadata), (payload, composite_metadata), annotated custom type, metadata-first orders, annotated Payload, three parameters}; requests: 5 types x route {a, b, c, no routing '
        'entry, empty tag list} x routing entry position {first, after a generic entry, after the auth entry} x authentication '
        '{no verifier; verifier with no entry / rejected / accepted simple / accepted bearer}; reference router = dict lookups; second '
        'pass: table x request product end-to-end through two real endpoints with a concurrent in-flight request on another stream; '
        'non-trivial = request that must not reach a named route handler (unknown route, missing/rejected authentication, other type '
        'registered); programs = route tables; SESSIONS: every ordered pair of requests (5 types x routes {a,b} x 6 credential kinds) through one '
        'handler instance, with a verifier whose answer depends on the route and on time (revocation between the two requests)')
EXPLANATION = 'exhaustive product of small route-table and request alphabets driven through the real router/handler coroutines on the virtual loop'
ASSUMPTIONS = ['a request without a routing entry or with an empty tag list may either fail or reach the unknown-route handler of its type; it must never reach a named route']
BUDGET_S = {'quick': 240, 'thorough': 1800}

TYPES = ('response', 'stream', 'channel', 'fire_and_forget', 'metadata_push')
SIGS = ('none', 'payload', 'cm', 'both', 'typed', 'cm-first', 'ann-cm-first', 'typed-then-raw', 'ann-payload', 'three')
ROUTES = ('a', 'b', 'c', 'ab', 'A', 'empty-then-a', 'emptystring', 'noroute', 'emptytags')  # 'ab' and 'A' are never registered: route names match exactly
POSITIONS = ('first', 'after-generic', 'after-auth')
AUTHS = ('no-verifier', 'missing', 'rejected', 'rejected-empty-bearer', 'rejected-empty-simple', 'simple-ok', 'bearer-ok')
REJECTED = ('missing', 'rejected', 'rejected-empty-bearer', 'rejected-empty-simple')


def bounds(tier):
    return {'types': list(TYPES), 'signatures': list(SIGS), 'routes': list(ROUTES), 'positions': list(POSITIONS), 'auth': list(AUTHS),
            'tables_per_type': 16}


class Typed:
    def __init__(self, data):
        self.data = data


def build(table, ran, verifier_on, sig):
    """table: dict(type_under_test, named=frozenset of {'a','b'}, unknown=bool, others=bool)."""
    from rsocket.routing.request_router import RequestRouter
    from rsocket.routing.routing_request_handler import RoutingRequestHandler
    from rsocket.extensions.composite_metadata import CompositeMetadata
    from rsocket.extensions.authentication import AuthenticationSimple, AuthenticationBearer
    from rsocket.helpers import create_future
    from rsocket.payload import Payload
    router = RequestRouter(payload_deserializer=lambda cls, p: Typed(bytes(p.data or b'')) if cls is Typed else p)

    def result_for(t, name):
        if t == 'response':
            return Payload(b'resp:' + name.encode()) if name != 'b' else create_future(Payload(b'resp:b'))
        if t == 'stream':
            return ('PUB', name)
        if t == 'channel':
            return (('PUB', name), ('SUB', name))
        return None

    def mk(t, name, s):
        def rec(**kw):
            args = {}
            for k, v in kw.items():
                if isinstance(v, CompositeMetadata):
                    args[k] = ('cm', len(v.items))
                elif isinstance(v, Typed):
                    args[k] = ('typed', v.data)
                elif isinstance(v, Payload):
                    args[k] = ('payload', pl(v))
                else:
                    args[k] = ('?', repr(v))
            ran.append((t, name, tuple(sorted(args.items()))))
            return result_for(t, name)

        if s == 'none':
            async def h():
                return rec()
        elif s == 'payload':
            async def h(payload):
                return rec(payload=payload)
        elif s == 'cm':
            async def h(composite_metadata):
                return rec(composite_metadata=composite_metadata)
        elif s == 'both':
            async def h(payload, composite_metadata):
                return rec(payload=payload, composite_metadata=composite_metadata)
        elif s == 'typed':
            async def h(value: Typed, meta: CompositeMetadata):
                return rec(value=value, meta=meta)
        elif s == 'cm-first':  # parameter order must not matter: each parameter is bound by its own name / annotation
            async def h(composite_metadata, payload):
                return rec(composite_metadata=composite_metadata, payload=payload)
        elif s == 'ann-cm-first':
            async def h(meta: CompositeMetadata, request: Payload):
                return rec(meta=meta, request=request)
        elif s == 'typed-then-raw':
            async def h(value: Typed, raw: Payload):
                return rec(value=value, raw=raw)
        elif s == 'ann-payload':
            async def h(request: Payload):
                return rec(request=request)
        else:
            async def h(meta: CompositeMetadata, value: Typed, payload):
                return rec(meta=meta, value=value, payload=payload)
        return h

    tut = table['type']
    for t in TYPES:
        if t == tut:
            for name in sorted(table['named']):
                getattr(router, t)(name)(mk(t, name, sig if name == 'a' else 'both'))
            if table['unknown']:
                getattr(router, t + '_unknown')()(mk(t, 'unknown', 'both'))
        elif table['others']:
            for name in ('a', 'b', 'c'):
                getattr(router, t)(name)(mk(t, name, 'payload'))
            getattr(router, t + '_unknown')()(mk(t, 'unknown', 'payload'))
    verifier = None
    if verifier_on:
        async def verifier(route, authentication):
            ok = (isinstance(authentication, AuthenticationSimple) and bytes(authentication.username) == b'ok') or \
                 (isinstance(authentication, AuthenticationBearer) and bytes(authentication.token) == b'ok')
            if not ok:
                raise Exception('Authentication rejected')
    return router, RoutingRequestHandler(router, verifier)


def metadata_for(route, position, auth):
    from rsocket.extensions.helpers import composite, route as mk_route, authenticate_simple, authenticate_bearer, metadata_item
    from rsocket.extensions.mimetypes import WellKnownMimeTypes
    from rsocket.extensions.routing import RoutingMetadata
    items = []
    auth_item = {'missing': None, 'no-verifier': None, 'rejected': authenticate_simple('bad', 'x'), 'simple-ok': authenticate_simple('ok', 'pw'),
                 'rejected-empty-bearer': authenticate_bearer(''), 'rejected-empty-simple': authenticate_simple('', ''),
                 'bearer-ok': authenticate_bearer('ok')}[auth]
    generic = metadata_item(b'zz', WellKnownMimeTypes.TEXT_PLAIN)
    r = None
    if route == 'emptytags':
        r = RoutingMetadata([])
    elif route == 'empty-then-a':
        r = mk_route('', 'a')  # the FIRST tag is the (unregistered) empty string; 'a' is only the second tag
    elif route == 'emptystring':
        r = mk_route('')
    elif route != 'noroute':
        r = mk_route(route, 'second-tag')
    if position == 'first':
        items = [r, generic, auth_item]
    elif position == 'after-generic':
        items = [generic, r, auth_item]
    else:
        items = [auth_item, generic, r] if auth_item is not None else [generic, generic, r]
    items = [i for i in items if i is not None]
    return bytes(composite(*items)), len(items)


def expected(table, rtype, route, auth):
    """Reference router: set of acceptable (type, name) handlers that may run (empty tuple = none)."""
    if auth in REJECTED:
        return [None]
    regs = {}
    for t in TYPES:
        if t == table['type']:
            regs[t] = (set(table['named']), table['unknown'])
        elif table['others']:
            regs[t] = ({'a', 'b', 'c'}, True)
        else:
            regs[t] = (set(), False)
    named, unk = regs[rtype]
    if route in ('noroute', 'emptytags', 'empty-then-a', 'emptystring'):
        return [None, (rtype, 'unknown')] if unk else [None]
    if route in named:
        return [(rtype, route)]
    if unk:
        return [(rtype, 'unknown')]
    return [None]


def direct_case(table, sig, rtype, route, position, auth, part, body=b'body'):
    from rsocket.payload import Payload
    ran = []
    router, handler = build(table, ran, auth != 'no-verifier', sig)
    md, nitems = metadata_for(route, position, auth)
    payload = Payload(body, md)
    nb = bytes(body or b'')
    loop = VLoop()
    loop.install()
    outcome = None
    try:
        meth = {'response': handler.request_response, 'stream': handler.request_stream, 'channel': handler.request_channel,
                'fire_and_forget': handler.request_fire_and_forget, 'metadata_push': handler.on_metadata_push}[rtype]
        box = {}

        async def go():
            try:
                box['r'] = await meth(payload)
            except BaseException as e:
                box['e'] = e

        t = loop.create_task(go())
        loop.quiesce()
        r = box.get('r')
        if 'e' in box:
            outcome = ('raised', type(box['e']).__name__)
        elif rtype == 'response':
            if r is not None and r.done():
                outcome = ('error', type(r.exception()).__name__) if r.exception() else ('value', pl(r.result()))
            else:
                outcome = ('pending',)
        elif rtype == 'stream':
            outcome = ('value', r) if isinstance(r, tuple) else ('error', type(r).__name__)
        elif rtype == 'channel':
            outcome = ('value', r) if (isinstance(r, tuple) and isinstance(r[0], tuple)) else ('error', type(r[0]).__name__ if isinstance(r, tuple) else repr(r))
        else:
            outcome = ('done',)
    finally:
        loop.teardown()
    part.evaluations += 1
    part.traces += 1
    part.transitions += 1
    exp = expected(table, rtype, route, auth)
    who = [(x[0], x[1]) for x in ran]
    got = who[0] if len(who) == 1 else (None if not who else 'many')
    ctx = '%s/%s auth=%s pos=%s' % (rtype, route, auth, position)
    wit = {'kind': 'direct', 'table': {'type': table['type'], 'named': sorted(table['named']), 'unknown': table['unknown'], 'others': table['others']},
           'sig': sig, 'rtype': rtype, 'route': route, 'position': position, 'auth': auth, 'body': None if body is None else body.hex()}
    part.state((table['type'], tuple(sorted(table['named'])), table['unknown'], table['others'], rtype, route, auth, got, outcome[0]))
    part.outcome((got, outcome[0]))
    if exp != [(rtype, route)]:
        part.nontriv((tuple(sorted(wit['table'].items(), key=str)), rtype, route, position, auth, sig))
    if got not in exp:
        if auth in REJECTED:
            rule, sub = 'auth-gate', '%s | %s' % (auth, rtype)
        elif got == 'many':
            rule, sub = 'exact-dispatch', 'several-handlers | %s' % rtype
        elif got is None:
            rule, sub = 'exact-dispatch', 'no-handler-ran | %s/%s' % (rtype, 'named' if route in ('a', 'b') else route)
        elif got[0] != rtype:
            rule, sub = 'exact-dispatch', 'wrong-type | %s->%s' % (rtype, got[0])
        else:
            rule, sub = 'exact-dispatch', 'wrong-route | %s | %s->%s' % (rtype, route if route in ('a', 'b', 'c', 'ab', 'A', 'empty-then-a', 'emptystring') else 'none', got[1])
        part.violate('C19.' + rule, 'C19.%s | %s' % (rule, sub), 'request %s: handlers run %s, reference allows %s' % (ctx, who, exp), wit)
        return
    # arguments as annotated
    if got is not None and got != 'many':
        args = dict(ran[0][2])
        name = got[1]
        want_sig = sig if (rtype == table['type'] and name == 'a') else ('both' if rtype == table['type'] else 'payload')
        want = {'none': {}, 'payload': {'payload': ('payload', (nb, md))}, 'cm': {'composite_metadata': ('cm', nitems)},
                'both': {'payload': ('payload', (nb, md)), 'composite_metadata': ('cm', nitems)},
                'typed': {'value': ('typed', nb), 'meta': ('cm', nitems)},
                'cm-first': {'payload': ('payload', (nb, md)), 'composite_metadata': ('cm', nitems)},
                'ann-cm-first': {'request': ('payload', (nb, md)), 'meta': ('cm', nitems)},
                'typed-then-raw': {'value': ('typed', nb), 'raw': ('payload', (nb, md))},
                'ann-payload': {'request': ('payload', (nb, md))},
                'three': {'meta': ('cm', nitems), 'value': ('typed', nb), 'payload': ('payload', (nb, md))}}[want_sig]
        if rtype == 'metadata_push':
            want = {k: (v if v[0] != 'payload' else ('payload', (nb, md))) for k, v in want.items()}
        if args != want:
            part.violate('C19.parameters-as-annotated', 'C19.parameters-as-annotated | %s | %s%s' % (want_sig, rtype, '' if body == b'body' else (' | empty-data' if body == b'' else ' | no-data')),
                         'handler %s received %s, expected %s' % (got, args, want), wit)
        # the handler's answer is what the caller gets
        if rtype == 'response' and outcome != ('value', (b'resp:' + name.encode(), b'')):
            part.violate('C19.answer-returned', 'C19.answer-returned | response', 'handler %s ran but the caller got %s' % (got, outcome), wit)
        if rtype == 'stream' and outcome != ('value', ('PUB', name)):
            part.violate('C19.answer-returned', 'C19.answer-returned | stream', 'handler %s ran but the caller got %s' % (got, outcome), wit)
    else:
        if rtype == 'response' and outcome[0] != 'error':
            part.violate('C19.fails-with-error', 'C19.fails-with-error | response | %s' % outcome[0], 'unroutable request %s ended as %s' % (ctx, outcome), wit)
        if rtype in ('stream', 'channel') and outcome[0] != 'error':
            part.violate('C19.fails-with-error', 'C19.fails-with-error | %s | %s' % (rtype, outcome[0]), 'unroutable request %s ended as %s' % (ctx, outcome), wit)
        if outcome[0] == 'raised':
            part.violate('C19.fails-with-error', 'C19.fails-with-error | %s | handler-raised-%s' % (rtype, outcome[1]), 'routing handler raised for %s' % ctx, wit)


def tables_for(t):
    out = []
    for named in ((), ('a',), ('b',), ('a', 'b')):
        for unk in (False, True):
            for others in (False, True):
                out.append({'type': t, 'named': frozenset(named), 'unknown': unk, 'others': others})
    return out


# ---- wire pass -----------------------------------------------------------------------------------------------------
def wire_case(table, rtype, route, auth, flavour, part):
    from rsocket.extensions.mimetypes import WellKnownMimeTypes
    from rsocket.helpers import create_future
    from rsocket.payload import Payload
    from mc.world import World, start_pair, Chooser
    ran = []
    w = World()
    try:
        arm_watchdog(20)
        router, handler = build(table, ran, auth != 'no-verifier', 'both')
        slow = {}

        @router.response('slow')
        async def slow_route(payload):
            slow['f'] = w.loop.create_future()
            return slow['f']

        # publishers/subscribers the routed stream/channel handlers hand out
        import mc.props.c19 as me
        conn, client, server = start_pair(w, flavour, client_kw={'metadata_encoding': WellKnownMimeTypes.MESSAGE_RSOCKET_COMPOSITE_METADATA},
                                          server_kw={'handler_factory': lambda: WirePatch(handler, w)})
        w.run(Chooser([]))
        md_slow, _ = metadata_for('slow', 'first', 'simple-ok' if auth != 'no-verifier' else 'no-verifier')
        other = watch_future(w, 'c0', 'other', client.request_response(Payload(b'body', md_slow)))
        w.run(Chooser([]))
        md, _ = metadata_for(route, 'first', auth)
        res = {}
        if rtype == 'response':
            res['f'] = watch_future(w, 'c0', 'req', client.request_response(Payload(b'body', md)))
        elif rtype == 'stream':
            res['s'] = RecSubscriber(w, 'c0', 'sub')
            client.request_stream(Payload(b'body', md)).initial_request_n(5).subscribe(res['s'])
        elif rtype == 'channel':
            res['s'] = RecSubscriber(w, 'c0', 'sub')
            client.request_channel(Payload(b'body', md)).initial_request_n(5).subscribe(res['s'])
        elif rtype == 'fire_and_forget':
            client.fire_and_forget(Payload(b'body', md))
        else:
            client.metadata_push(md)
        w.run(Chooser([]))
        exp = expected(table, rtype, route, auth)
        who = [(x[0], x[1]) for x in ran]
        got = who[0] if len(who) == 1 else (None if not who else 'many')
        part.evaluations += 1
        part.traces += 1
        part.transitions += 3
        wit = {'kind': 'wire', 'table': {'type': table['type'], 'named': sorted(table['named']), 'unknown': table['unknown'], 'others': table['others']},
               'rtype': rtype, 'route': route, 'auth': auth, 'flavour': flavour}
        ctx = '%s/%s auth=%s' % (rtype, route, auth)
        part.state(('wire', rtype, route, auth, got))
        if got not in exp:
            rule = 'auth-gate' if auth in REJECTED else 'exact-dispatch'
            part.violate('C19.' + rule, 'C19.%s | wire | %s' % (rule, rtype), 'request %s: handlers run %s, reference allows %s' % (ctx, who, exp), wit)
        if got is None or got == 'many':
            if rtype == 'response' and res['f']['state'] != 'error':
                part.violate('C19.fails-with-error', 'C19.fails-with-error | wire | response | %s' % res['f']['state'], 'unroutable %s: awaitable %s' % (ctx, res['f']['state']), wit)
            if rtype in ('stream', 'channel') and (res['s'].terminal() is None or res['s'].terminal()[0] != 'E'):
                part.violate('C19.fails-with-error', 'C19.fails-with-error | wire | %s' % rtype, 'unroutable %s: subscriber signals %s' % (ctx, [x[0] for x in res['s'].signals]), wit)
        elif rtype == 'response':
            if res['f']['state'] != 'result' or res['f']['value'] != (b'resp:' + got[1].encode(), b''):
                part.violate('C19.answer-returned', 'C19.answer-returned | wire | response', 'handler %s ran, requester got %s %s' % (got, res['f']['state'], res['f']['value']), wit)
        # the concurrent request on another stream is unaffected
        if other['state'] != 'pending' or 'f' not in slow:
            part.violate('C19.other-requests-unaffected', 'C19.other-requests-unaffected | before-answer | %s' % other['state'], 'concurrent request state %s' % other['state'], wit)
        else:
            slow['f'].set_result(Payload(b'slow-done'))
            w.run(Chooser([]))
            if other['state'] != 'result' or other['value'] != (b'slow-done', b''):
                part.violate('C19.other-requests-unaffected', 'C19.other-requests-unaffected | answer | %s' % other['state'], 'concurrent request ended %s %s' % (other['state'], other['value']), wit)
        # errors only on the offending stream
        errs = [ev[2] for ev in w.log if ev[0] == 'tx' and ev[1] == 's0' and ev[2].type == R.ERROR]
        if any(e.sid in (0, 1) for e in errs):
            part.violate('C19.fails-on-that-request-alone', 'C19.fails-on-that-request-alone | wire | %s' % rtype, 'ERROR frames %s' % errs, wit)
    finally:
        disarm_watchdog()
        w.teardown()


class WirePatch:
    """Adapter: the routed handlers of this check return tokens; turn them into real publishers on the wire."""

    def __init__(self, handler, w):
        self.h, self.w = handler, w

    def __getattr__(self, name):
        return getattr(self.h, name)

    async def request_stream(self, payload):
        r = await self.h.request_stream(payload)
        if isinstance(r, tuple):
            from rsocket.streams.empty_stream import EmptyStream
            return EmptyStream()
        return r

    async def request_channel(self, payload):
        r = await self.h.request_channel(payload)
        if isinstance(r, tuple) and isinstance(r[0], tuple):
            from rsocket.streams.empty_stream import EmptyStream
            return EmptyStream(), RecSubscriber(self.w, 's0', 'chsub')
        return r


# ---- sessions: several requests through ONE handler instance (one connection) ---------------------------------------------
SESSION_AUTHS = ('missing', 'bad', 'a-only-simple', 'a-only-bearer', 'all-simple', 'revocable')


def session_case(first, second, part):
    """Two requests on the same RoutingRequestHandler; the verifier's policy depends on the route ('a-only' credentials are
    accepted for route a only) and on time ('revocable' is accepted until revoked, which happens between the two requests).
    Every request is judged on its own by the stateless reference: a handler runs iff the verifier accepts (route, credentials)."""
    from rsocket.routing.request_router import RequestRouter
    from rsocket.routing.routing_request_handler import RoutingRequestHandler
    from rsocket.extensions.authentication import AuthenticationSimple, AuthenticationBearer
    from rsocket.extensions.helpers import composite, route as mk_route, authenticate_simple, authenticate_bearer
    from rsocket.payload import Payload
    from rsocket.helpers import create_future
    ran = []
    asked = []
    revoked = [False]
    router = RequestRouter()

    def mk(t, name):
        async def h(payload):
            ran.append((t, name))
            if t == 'response':
                return create_future(Payload(b'resp:' + name.encode()))
            if t == 'stream':
                return ('PUB', name)
            if t == 'channel':
                return (('PUB', name), ('SUB', name))
        return h

    for t in TYPES:
        for name in ('a', 'b'):
            getattr(router, t)(name)(mk(t, name))

    def ident(authentication):
        if isinstance(authentication, AuthenticationSimple):
            return bytes(authentication.username)
        if isinstance(authentication, AuthenticationBearer):
            return bytes(authentication.token)
        return None

    def allowed(route, who):
        if who == b'all':
            return True
        if who == b'a-only':
            return route == 'a'
        if who == b'revocable':
            return not revoked[0]
        return False

    async def verifier(route, authentication):
        asked.append((route, ident(authentication)))
        if not allowed(route, ident(authentication)):
            raise Exception('Authentication rejected')

    handler = RoutingRequestHandler(router, verifier)
    entry = {'missing': None, 'bad': authenticate_simple('nobody', 'x'), 'a-only-simple': authenticate_simple('a-only', 'pw'),
             'a-only-bearer': authenticate_bearer('a-only'), 'all-simple': authenticate_simple('all', 'pw'), 'revocable': authenticate_bearer('revocable')}
    who_of = {'missing': None, 'bad': b'nobody', 'a-only-simple': b'a-only', 'a-only-bearer': b'a-only', 'all-simple': b'all', 'revocable': b'revocable'}
    loop = VLoop()
    loop.install()
    try:
        for idx, (rtype, rt, auth) in enumerate((first, second)):
            if idx == 1:
                revoked[0] = True
            items = [mk_route(rt)] + ([entry[auth]] if entry[auth] is not None else [])
            payload = Payload(b'body', bytes(composite(*items)))
            meth = {'response': handler.request_response, 'stream': handler.request_stream, 'channel': handler.request_channel,
                    'fire_and_forget': handler.request_fire_and_forget, 'metadata_push': handler.on_metadata_push}[rtype]
            before = len(ran)

            async def go():
                try:
                    await meth(payload)
                except BaseException:
                    pass

            loop.create_task(go())
            loop.quiesce()
            got = ran[before:]
            may = who_of[auth] is not None and allowed(rt, who_of[auth])
            want = [(rtype, rt)] if may else []
            part.evaluations += 1
            part.transitions += 1
            wit = {'kind': 'session', 'first': list(first), 'second': list(second)}
            if got != want:
                if not may:
                    part.violate('C19.auth-gate', 'C19.auth-gate | session | request-%d | %s | after-%s' % (idx + 1, rtype, 'accepted' if (idx == 1 and ran[:before]) else 'nothing'),
                                 'request %d %s/%s with credentials %s: handlers run %s although the verifier rejects it (verifier was asked %s); first request %s' % (
                                     idx + 1, rtype, rt, auth, got, asked, first), wit)
                else:
                    part.violate('C19.exact-dispatch', 'C19.exact-dispatch | session | request-%d | %s' % (idx + 1, rtype),
                                 'request %d %s/%s with credentials %s: handlers run %s, expected %s; first request %s' % (idx + 1, rtype, rt, auth, got, want, first), wit)
        part.traces += 1
        part.state(('session', first, second, tuple(ran)))
        if first[2] not in ('missing', 'bad') and second[2] in ('a-only-simple', 'a-only-bearer', 'revocable'):
            part.nontriv(('session', first, second))
    finally:
        loop.teardown()


def make_units(tier):
    units = []
    for t in TYPES:
        for sig in SIGS:
            units.append({'kind': 'direct', 'type': t, 'sig': sig})
        units.append({'kind': 'session', 'type': t})
        units.append({'kind': 'wire', 'type': t, 'flavour': 'tcp'})
        if tier == 'thorough':
            units.append({'kind': 'wire', 'type': t, 'flavour': 'msg'})
    return units


def run_unit(unit, part):
    t = unit['type']
    if unit['kind'] == 'session':
        reqs = [(rt, r, a) for rt in TYPES for r in ('a', 'b') for a in SESSION_AUTHS]
        for first in reqs:
            if first[0] != t:
                continue
            for second in reqs:
                session_case(first, second, part)
        part.sample({'kind': 'session', 'first_type': t, 'pairs': len(reqs) * len(reqs) // len(TYPES)}, limit=1)
        return
    if unit['kind'] == 'direct':
        for table in tables_for(t):
            if unit['sig'] != 'both' and 'a' not in table['named']:
                continue
            for rtype, route, position, auth in itertools.product(TYPES, ROUTES, POSITIONS, AUTHS):
                if position == 'after-auth' and auth == 'no-verifier' and route == 'noroute':
                    continue
                direct_case(table, unit['sig'], rtype, route, position, auth, part)
            if unit['sig'] in ('typed', 'typed-then-raw', 'three', 'payload'):
                # requests without a body (empty / absent data): the annotated parameter is still what the annotation says
                for body in (b'', None):
                    for rtype, route, auth in itertools.product(TYPES, ('a', 'c'), ('no-verifier', 'simple-ok')):
                        direct_case(table, unit['sig'], rtype, route, 'first', auth, part, body)
        part.extra['programs'] = part.extra.get('programs', 0) + len(tables_for(t))
        part.sample({'kind': 'direct', 'type': t, 'signature': unit['sig'], 'tables': len(tables_for(t))}, limit=1)
    else:
        for table in tables_for(t):
            for rtype, route, auth in itertools.product(TYPES, ROUTES, AUTHS):
                if rtype != t and not table['others'] and route not in ('a', 'c'):
                    continue
                wire_case(table, rtype, route, auth, unit['flavour'], part)
        part.sample({'kind': 'wire', 'type': t, 'link': unit['flavour']}, limit=1)


def replay(rec):
    from mc.runner import Partial
    w = rec['witness']
    p = Partial()
    if w['kind'] == 'session':
        session_case(tuple(w['first']), tuple(w['second']), p)
        for v in p.violations.values():
            print(v.rule, '|', v.detail[:400])
        return bool(p.violations)
    table = dict(w['table'], named=frozenset(w['table']['named']))
    if w['kind'] == 'direct':
        direct_case(table, w['sig'], w['rtype'], w['route'], w['position'], w['auth'], p,
                    b'body' if 'body' not in w else (None if w['body'] is None else bytes.fromhex(w['body'])))
    else:
        wire_case(table, w['rtype'], w['route'], w['auth'], w['flavour'], p)
    for v in p.violations.values():
        print(v.rule, '|', v.detail[:400])
    return bool(p.violations)
