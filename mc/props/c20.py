"""C20 Rx (v3) / ReactiveX (v4) adapters are transparent: two real endpoints driven through the Rx client and handler
adapters, DEV exploration (disposal as an application event), judged against the reference element sequence."""
import asyncio

from mc import monitors, refwire as R
from mc.app import P, pl
from mc.explore import Scenario, dev_explore, replay_witness
from mc.world import Step, start_pair

MAXN = 0x7FFFFFFF
RULE = ('DEV on two real endpoints driven through RxRSocket+rx_handler_factory (Rx3) and ReactiveXClient+reactivex_handler_factory '
        '(ReactiveX4): request-stream and request-channel with element counts {0,1,3} x request limit {1,2,2^31-1} x error position '
        '{none,0,1} x handler source {plain observable, back-pressure factory}, disposal of the result observable as an application '
        'event at every choice point, a core-API requester granting 2+3+2 credits at every relative moment against the adapter on the handler side, request-response with empty / non-empty answer, fire-and-forget, metadata-push, setup; oracle: '
        'observers see exactly the reference element sequence and terminal (both channel directions), observer signal grammar, '
        'REQUEST_STREAM/REQUEST_CHANNEL initial n and every REQUEST_N equal the request limit, credit monitor at the handler side, a '
        'back-pressure factory is asked for exactly the credited amounts, dispose => exactly one CANCEL, delegate handler invoked with '
        'the sent payloads; non-trivial = execution with disposal before completion, an error, or limit < element count')
EXPLANATION = 'stateless deviation-bounded exploration; reference = the element sequence the handler observable produces (what the core API would deliver)'
ASSUMPTIONS = ['the rx / reactivex packages are trusted as executed', 'asyncio ready queue FIFO']
BUDGET_S = {'quick': 300, 'thorough': 3000}


def bounds(tier):
    return {'apis': ['rx3', 'rx4'], 'counts': [0, 1, 3], 'limits': [1, 2, MAXN], 'error_positions': [None, 0, 1],
            'sources': ['plain', 'backpressure-factory'], 'deviation_bound': 2 if tier == 'quick' else 3}


def libs(api):
    if api == 'rx3':
        import rx
        from rx import operators
        from rx.subject import Subject
        from rsocket.rx_support.rx_rsocket import RxRSocket
        from rsocket.rx_support.rx_handler_adapter import rx_handler_factory
        from rsocket.rx_support.rx_handler import BaseRxHandler
        from rsocket.rx_support.rx_channel import RxChannel
        from rsocket.rx_support import back_pressure_publisher as bp
        return dict(rx=rx, ops=operators, Client=RxRSocket, factory=rx_handler_factory, Base=BaseRxHandler, Channel=RxChannel, bp=bp)
    import reactivex
    from reactivex import operators
    from rsocket.reactivex.reactivex_client import ReactiveXClient
    from rsocket.reactivex.reactivex_handler_adapter import reactivex_handler_factory
    from rsocket.reactivex.reactivex_handler import BaseReactivexHandler
    from rsocket.reactivex.reactivex_channel import ReactivexChannel
    from rsocket.reactivex import back_pressure_publisher as bp
    return dict(rx=reactivex, ops=operators, Client=ReactiveXClient, factory=reactivex_handler_factory, Base=BaseReactivexHandler,
                Channel=ReactivexChannel, bp=bp)


def els(tag, k):
    return [P(b'%s%d\x00\xff' % (tag, i), b'm%d' % i if i % 2 else None) for i in range(k)]


class RecObserver:
    def __init__(self, w, ep, name):
        self.w, self.ep, self.name = w, ep, name
        self.signals = []

    def on_next(self, v):
        self.signals.append(('N', pl(v), False))
        self.w.api(self.ep, self.name, 'N', pl(v))

    def on_error(self, e):
        self.signals.append(('E', type(e).__name__))
        self.w.api(self.ep, self.name, 'E', type(e).__name__)

    def on_completed(self):
        self.signals.append(('C',))
        self.w.api(self.ep, self.name, 'C', ())


class RxScn(Scenario):
    def __init__(self, api, kind, k=3, limit=MAXN, err=None, source='plain', dispose=False, up=0, flavour='tcp', empty=False,
                 alts=('all',), modes=('Q',), ending='flag'):
        self.name = 'rx'
        self.params = dict(api=api, kind=kind, k=k, limit=limit, err=err, source=source, dispose=dispose, up=up, flavour=flavour,
                           empty=empty, alts=list(alts), modes=list(modes), ending=ending)
        self.world_kw = {'alts': alts, 'modes': modes}
        self.__dict__.update(self.params)

    def handler_observable(self, L, w, tag, k, err):
        """(observable or factory, expected elements, expected terminal)."""
        rx, bp = L['rx'], L['bp']
        items = els(tag, k)
        if err is not None and err <= k:
            good = items[:err]
            terminal = 'E'
        else:
            good = items
            terminal = 'C'
        if self.source == 'plain':
            if terminal == 'E':
                obs = rx.concat(rx.from_iterable(good), rx.throw(RuntimeError('boom')))
            else:
                obs = rx.from_iterable(good)
            return obs, good, terminal
        q = asyncio.Queue()
        for e in good:
            q.put_nowait(e)
        q.put_nowait(None if terminal == 'C' else 'ERR')
        asked = w.objs.setdefault('asked', [])

        async def agen():
            while True:
                v = await q.get()
                if v is None:
                    return
                if isinstance(v, str):
                    raise RuntimeError('boom')
                yield v

        def factory(backpressure):
            backpressure.subscribe(on_next=lambda n: asked.append(n))
            return bp.observable_from_async_generator(agen().__aiter__(), backpressure)

        return bp.from_observable_with_backpressure(factory), good, terminal

    def core_publisher(self, tag, n):
        """A core-API source of n elements; ending 'flag' (last element carries COMPLETE), 'complete' (separate empty
        completion) or 'error' (the generator raises after the elements)."""
        from rsocket.streams.stream_from_generator import StreamFromGenerator
        items = els(tag, n)
        ending = self.ending

        def gen():
            for i, e in enumerate(items):
                yield e, (ending == 'flag' and i == n - 1)
            if ending == 'error':
                raise RuntimeError('boom')

        return StreamFromGenerator(gen), items, ('E' if ending == 'error' else 'C')

    def setup(self, w):
        L = libs(self.api)
        rx = L['rx']
        scn = self
        if self.kind in ('stream-corehandler', 'channel-corehandler'):
            return self.setup_corehandler(w, L)
        calls = w.objs['calls'] = []
        w.objs['expect'] = {}

        class H(L['Base']):
            async def on_setup(self, data_encoding, metadata_encoding, payload):
                calls.append(('on_setup', bytes(data_encoding), bytes(metadata_encoding), pl(payload)))

            async def on_metadata_push(self, metadata):
                calls.append(('on_metadata_push', pl(metadata)))

            async def request_fire_and_forget(self, payload):
                calls.append(('request_fire_and_forget', pl(payload)))

            async def request_response(self, payload):
                calls.append(('request_response', pl(payload)))
                if scn.kind == 'rr-error':
                    return rx.throw(RuntimeError('handler observable fails'))
                if scn.kind == 'rr-two':
                    return rx.from_iterable([P(b'answer', b'am'), P(b'second')])
                if scn.empty in ('meta', 'data'):
                    return rx.of(P(None, b'only-meta') if scn.empty == 'meta' else P(b'only-data'))
                return rx.empty() if scn.empty else rx.of(P(b'answer', b'am'))

            async def request_stream(self, payload):
                calls.append(('request_stream', pl(payload)))
                obs, good, term = scn.handler_observable(L, w, b'd', scn.k, scn.err)
                w.objs['expect']['down'] = (good, term)
                return obs

            async def request_channel(self, payload):
                calls.append(('request_channel', pl(payload)))
                obs, good, term = scn.handler_observable(L, w, b'd', scn.k, scn.err)
                w.objs['expect']['down'] = (good, term)
                o = RecObserver(w, 's0', 'upobs')
                w.objs['upobs'] = o
                return L['Channel'](obs, o, limit_rate=scn.limit)

        from rsocket.payload import Payload
        conn, client, server = start_pair(w, self.flavour, server_kw={'handler_factory': L['factory'](H)},
                                          client_kw={'setup_payload': Payload(b'sd', b'sm'), 'data_encoding': b'text/plain',
                                                     'metadata_encoding': b'message/x.rsocket.composite-metadata.v0'})
        rc = L['Client'](client)
        w.objs['rc'] = rc
        obs = w.objs['obs'] = RecObserver(w, 'c0', 'obs')
        st = w.objs['st'] = {}

        def start(w):
            kind = self.kind
            if kind == 'stream-core':
                from mc.app import RecSubscriber
                sub = st['coresub'] = RecSubscriber(w, 'c0', 'coresub')
                client.request_stream(P(b'req')).initial_request_n(2).subscribe(sub)
                st['disp'] = None
                return
            if kind == 'channel-core':
                from mc.app import RecSubscriber
                sub = st['coresub'] = RecSubscriber(w, 'c0', 'coresub')
                pub, items, term = self.core_publisher(b'u', self.up)
                w.objs['expect']['up'] = (items, term)
                client.request_channel(P(b'req'), pub).initial_request_n(MAXN).subscribe(sub)
                st['disp'] = None
                return
            if kind == 'stream':
                o = rc.request_stream(P(b'req'), request_limit=self.limit)
            elif kind == 'channel':
                up = rx.from_iterable(els(b'u', self.up)) if self.up >= 0 else None
                o = rc.request_channel(P(b'req'), request_limit=self.limit, observable=up)
            elif kind in ('rr', 'rr-error', 'rr-two'):
                o = rc.request_response(P(b'req', b'rm'))
            elif kind == 'fnf':
                o = rc.fire_and_forget(P(b'req', b'rm'))
            else:
                o = rc.metadata_push(b'pushed')
            st['disp'] = o.subscribe(obs)

        steps = [Step('subscribe', start, guard=lambda w: any(ev[0] == 'rx' and ev[2].type == R.SETUP for ev in w.log))]
        if self.kind == 'stream-core':
            steps.append(Step('request3', lambda w: st['coresub'].subscription.request(3)))
            steps.append(Step('request2', lambda w: st['coresub'].subscription.request(2)))
        if self.dispose:
            def disp(w):
                st['disposed_at'] = len(w.log)
                st['pending_at_dispose'] = not any(s[0] in ('C', 'E') for s in obs.signals)
                st['nsig_at_dispose'] = len(obs.signals)
                st['disp'].dispose()

            steps.append(Step('dispose', disp))
        w.add_actor('app', steps)

    def check(self, w):
        out = []
        log = w.log
        obs, st = w.objs['obs'], w.objs['st']
        tag = '%s/%s/%s' % (self.api, self.kind, self.source)
        calls = w.objs['calls']
        disposed = 'disposed_at' in st
        if ('on_setup', b'text/plain', b'message/x.rsocket.composite-metadata.v0', (b'sd', b'sm')) not in calls:
            out.append(('C20.delegate-invoked', 'C20.delegate-invoked | %s | on_setup' % self.api, 'delegate on_setup calls: %s' % [c for c in calls if c[0] == 'on_setup']))
        if 'disp' not in st:
            return out
        if self.kind == 'stream-core':
            # handler side through the adapter, requester on the core API granting 2 + 3 + 2 credits at arbitrary moments
            exp = w.objs['expect'].get('down')
            sub = st['coresub']
            got = [e for e in sub.elements() if e != (b'', b'')]
            if exp is not None:
                want = [pl(e) for e in exp[0]][:7]
                if got != want:
                    out.append(('C20.elements-preserved', 'C20.elements-preserved | %s | core-requester | got=%d want=%d' % (tag, len(got), len(want)),
                                'core requester granted 2+3+2 credits and got %d of %d elements' % (len(got), len(want))))
            out += [(r, s_ + ' | ' + tag, d) for r, s_, d in monitors.credit(log, 's0', prop='C20')]
            return out
        if self.kind == 'channel-core':
            return out + self.check_channel_core(w, tag)
        if self.kind in ('stream-corehandler', 'channel-corehandler'):
            return out + self.check_corehandler(w, tag)
        sig = ''.join(s[0] for s in obs.signals)
        for i, ch in enumerate(sig):
            if ch in 'CE' and i != len(sig) - 1:
                out.append(('C20.observer-grammar', 'C20.observer-grammar | %s | %s-then-%s' % (tag, ch, sig[i + 1]), 'observer signals %s' % sig))
                break
        if self.kind in ('stream', 'channel'):
            exp = w.objs['expect'].get('down')
            got = [s[1] for s in obs.signals if s[0] == 'N' and s[1] != (b'', b'')]
            term = next((s[0] for s in obs.signals if s[0] in 'CE'), None)
            if not disposed and exp is not None:
                want = [pl(e) for e in exp[0]]
                if got != want:
                    out.append(('C20.elements-preserved', 'C20.elements-preserved | %s | down | got=%d want=%d' % (tag, len(got), len(want)),
                                'observer got %s expected %s' % (got, want)))
                if term != exp[1]:
                    out.append(('C20.terminal-preserved', 'C20.terminal-preserved | %s | down | %s-instead-of-%s' % (tag, term, exp[1]),
                                'observer terminal %s expected %s (signals %s)' % (term, exp[1], sig)))
            if disposed:
                late = obs.signals[st['nsig_at_dispose']:]
                if late:
                    out.append(('C20.dispose-cancels', 'C20.dispose-cancels | %s | signal-after-dispose-%s' % (tag, late[0][0]), 'signals after dispose(): %s' % late))
            if self.kind == 'channel' and not disposed:
                up = w.objs.get('upobs')
                if up is not None and self.up >= 0:
                    gotu = [s[1] for s in up.signals if s[0] == 'N' and s[1] != (b'', b'')]
                    wantu = [pl(e) for e in els(b'u', self.up)]
                    if gotu != wantu:
                        out.append(('C20.elements-preserved', 'C20.elements-preserved | %s | up | got=%d want=%d' % (tag, len(gotu), len(wantu)), 'responder observer got %s expected %s' % (gotu, wantu)))
                    if not any(s[0] == 'C' for s in up.signals):
                        out.append(('C20.terminal-preserved', 'C20.terminal-preserved | %s | up | missing-complete' % tag, 'responder observer signals %s' % [s[0] for s in up.signals]))
            # request limit on the wire
            req = [ev[2] for ev in log if ev[0] == 'tx' and ev[1] == 'c0' and ev[2].type in (R.REQUEST_STREAM, R.REQUEST_CHANNEL)]
            if req and req[0].request_n != self.limit:
                out.append(('C20.request-limit', 'C20.request-limit | %s | initial' % tag, 'initial request-n %d, request limit %d' % (req[0].request_n, self.limit)))
            rns = [ev[2].request_n for ev in log if ev[0] == 'tx' and ev[1] == 'c0' and ev[2].type == R.REQUEST_N]
            if any(n != self.limit for n in rns):
                out.append(('C20.request-limit', 'C20.request-limit | %s | request-n' % tag, 'REQUEST_N values %s, request limit %d' % (rns, self.limit)))
            if not disposed and exp is not None and self.limit < MAXN:
                need = max(0, (len(exp[0]) + (0 if exp[1] == 'E' else 0)) // self.limit)
                if len(got) == len(exp[0]) and len(rns) > len(exp[0]) // self.limit + 1:
                    out.append(('C20.request-limit', 'C20.request-limit | %s | too-many-request-n' % tag, '%d REQUEST_N frames for %d elements at limit %d' % (len(rns), len(exp[0]), self.limit)))
            out += [(r, s + ' | ' + tag, d) for r, s, d in monitors.credit(log, 's0', prop='C20')]
            # the request limit bounds the outstanding demand in both directions: credit granted - elements received <= limit
            for ep, who in (('c0', 'requester'), ('s0', 'responder')):
                if self.limit >= MAXN or (ep == 's0' and self.kind != 'channel'):
                    continue
                granted, got_n, worst = 0, 0, 0
                for ev in log:
                    if ev[0] == 'tx' and ev[1] == ep and ev[2].sid == (req[0].sid if req else 1):
                        if ev[2].type in (R.REQUEST_STREAM, R.REQUEST_CHANNEL, R.REQUEST_N) and not (ep == 's0' and ev[2].type != R.REQUEST_N):
                            granted += ev[2].request_n
                    elif ev[0] == 'rx' and ev[1] == ep and ev[2].sid == (req[0].sid if req else 1) and ev[2].type == R.PAYLOAD and ev[2].next and not ev[2].follows:
                        got_n += 1
                    worst = max(worst, granted - got_n)
                if worst > self.limit:
                    out.append(('C20.request-limit', 'C20.request-limit | %s | outstanding-demand | %s' % (tag, who),
                                '%s had %d elements of demand outstanding with request limit %d' % (who, worst, self.limit)))
            if self.source == 'bp':
                credits = [ev[2].request_n for ev in log if ev[0] == 'rx' and ev[1] == 's0' and ev[2].type in (R.REQUEST_STREAM, R.REQUEST_CHANNEL, R.REQUEST_N) and ev[2].sid == (req[0].sid if req else 1)]
                asked = w.objs.get('asked', [])
                if asked != credits[:len(asked)] or (not disposed and len(asked) != len(credits) and exp is not None and sum(credits[:len(asked)]) < len(exp[0]) + 1):
                    out.append(('C20.backpressure-factory-credit', 'C20.backpressure-factory-credit | %s' % tag, 'feedback subject received %s, credit frames carried %s' % (asked, credits)))
            if disposed and st.get('pending_at_dispose'):
                sid = req[0].sid if req else None
                cancels = [ev for ev in log if ev[0] == 'tx' and ev[1] == 'c0' and ev[2].type == R.CANCEL]
                # a terminal frame fed to the client before the loop next ran after dispose() races the disposal: the stream may
                # already be over when the cancellation is acted upon
                q_after = next((i for i in range(st['disposed_at'], len(log)) if log[i][0] == 'q'), len(log))
                completed_on_wire = any(ev[0] == 'rx' and ev[1] == 'c0' and ev[2].sid == sid and ((ev[2].type == R.PAYLOAD and ev[2].complete) or ev[2].type == R.ERROR) for ev in log[:q_after])
                if sid is not None and not completed_on_wire and len(cancels) != 1:
                    out.append(('C20.dispose-cancels', 'C20.dispose-cancels | %s | cancels=%d' % (tag, len(cancels)), 'dispose() of a pending %s produced %d CANCEL frames' % (self.kind, len(cancels))))
        elif self.kind == 'rr-error' and not disposed:
            if sig != 'E':
                out.append(('C20.terminal-preserved', 'C20.terminal-preserved | %s | response | %s-instead-of-E' % (self.api, sig or 'nothing'),
                            'the handler observable failed; the client observer saw %s' % (obs.signals,)))
        elif self.kind == 'rr-two' and not disposed:
            # a response is one element: the first one the handler observable produced
            if sig not in ('NC',) or obs.signals[0][1] != (b'answer', b'am'):
                out.append(('C20.elements-preserved', 'C20.elements-preserved | %s | response | two-element-observable' % self.api, 'observer signals %s' % (obs.signals,)))
        elif self.kind == 'rr' and not disposed:
            want = 'C' if self.empty is True else 'NC'
            answer = {'meta': (b'', b'only-meta'), 'data': (b'only-data', b'')}.get(self.empty, (b'answer', b'am'))
            if sig != want or (self.empty is not True and obs.signals[0][1] != answer):
                out.append(('C20.elements-preserved', 'C20.elements-preserved | %s | response | %s' % (self.api, {True: 'empty', False: 'non-empty', 'meta': 'metadata-only', 'data': 'data-only'}[self.empty]), 'observer signals %s' % (obs.signals,)))
            if ('request_response', (b'req', b'rm')) not in calls:
                out.append(('C20.delegate-invoked', 'C20.delegate-invoked | %s | request_response' % self.api, 'delegate calls %s' % calls))
        elif self.kind == 'fnf' and not disposed:
            if ('request_fire_and_forget', (b'req', b'rm')) not in calls:
                out.append(('C20.delegate-invoked', 'C20.delegate-invoked | %s | request_fire_and_forget' % self.api, 'delegate calls %s' % calls))
        elif self.kind == 'push' and not disposed:
            if ('on_metadata_push', (b'', b'pushed')) not in calls:
                out.append(('C20.delegate-invoked', 'C20.delegate-invoked | %s | on_metadata_push' % self.api, 'delegate calls %s' % calls))
        for msg, exc, txt in w.loop.read_exc_log():
            if exc not in (None, 'CancelledError'):
                out.append(('C20.no-unhandled-exception', 'C20.no-unhandled-exception | %s | %s' % (tag, exc), '%s: %s' % (msg, txt)))
        return out

    def check_channel_core(self, w, tag):
        """Core-API requester (its publisher ends with a COMPLETE-flagged element / a separate completion / an error)
        against the handler-side adapter with limit_rate = the request limit."""
        out = []
        log, st = w.log, w.objs['st']
        tag = tag + '/up-' + self.ending
        up = w.objs.get('upobs')
        items, term = w.objs['expect'].get('up', ([], 'C'))
        if up is not None:
            gotu = [s[1] for s in up.signals if s[0] == 'N' and s[1] != (b'', b'')]
            wantu = [pl(e) for e in items]
            if gotu != wantu:
                out.append(('C20.elements-preserved', 'C20.elements-preserved | %s | up | got=%d want=%d' % (tag, len(gotu), len(wantu)), 'handler observer got %s expected %s' % (gotu, wantu)))
            tu = [s[0] for s in up.signals if s[0] in 'CE']
            if tu != [term]:
                out.append(('C20.terminal-preserved', 'C20.terminal-preserved | %s | up | %s-instead-of-%s' % (tag, ''.join(tu) or 'none', term),
                            'handler observer signals %s, the requester ended its direction with %s' % ([s[0] for s in up.signals], term)))
            sg = ''.join(s[0] for s in up.signals)
            for i, ch in enumerate(sg):
                if ch in 'CE' and i != len(sg) - 1:
                    out.append(('C20.observer-grammar', 'C20.observer-grammar | %s | %s-then-%s' % (tag, ch, sg[i + 1]), 'handler observer signals %s' % sg))
                    break
        exp = w.objs['expect'].get('down')
        sub = st['coresub']
        if exp is not None:
            got = [e for e in sub.elements() if e != (b'', b'')]
            want = [pl(e) for e in exp[0]]
            if got != want:
                out.append(('C20.elements-preserved', 'C20.elements-preserved | %s | down | got=%d want=%d' % (tag, len(got), len(want)), 'core requester got %s expected %s' % (got, want)))
        rns = [ev[2].request_n for ev in log if ev[0] == 'tx' and ev[1] == 's0' and ev[2].type == R.REQUEST_N]
        if any(n != self.limit for n in rns):
            out.append(('C20.request-limit', 'C20.request-limit | %s | request-n | responder' % tag, 'REQUEST_N values %s from the handler side, limit_rate %d' % (rns, self.limit)))
        if self.limit < MAXN:
            granted, got_n, worst = 0, 0, 0
            for ev in log:
                if ev[0] == 'tx' and ev[1] == 's0' and ev[2].type == R.REQUEST_N and ev[2].sid == 1:
                    granted += ev[2].request_n
                elif ev[0] == 'rx' and ev[1] == 's0' and ev[2].sid == 1 and ev[2].type == R.PAYLOAD and ev[2].next and not ev[2].follows:
                    got_n += 1
                worst = max(worst, granted - got_n)
            if worst > self.limit:
                out.append(('C20.request-limit', 'C20.request-limit | %s | outstanding-demand | responder' % tag, 'handler side had %d elements of demand outstanding with limit_rate %d' % (worst, self.limit)))
        out += [(r, s_ + ' | ' + tag, d) for r, s_, d in monitors.credit(log, 's0', prop='C20')]
        out += [(r, s_ + ' | ' + tag, d) for r, s_, d in monitors.credit(log, 'c0', prop='C20')]
        for msg, exc, txt in w.loop.read_exc_log():
            if exc not in (None, 'CancelledError'):
                out.append(('C20.no-unhandled-exception', 'C20.no-unhandled-exception | %s | %s' % (tag, exc), '%s: %s' % (msg, txt)))
        return out

    def setup_corehandler(self, w, L):
        """Rx client against a core-API handler whose publisher ends with a COMPLETE-flagged element / separate completion /
        error."""
        from mc.app import RecSubscriber
        from rsocket.payload import Payload
        rx = L['rx']
        scn = self
        w.objs['calls'] = [('on_setup', b'text/plain', b'message/x.rsocket.composite-metadata.v0', (b'sd', b'sm'))]
        w.objs['expect'] = {}

        def request_stream(h, p):
            pub, items, term = scn.core_publisher(b'd', scn.k)
            w.objs['expect']['down'] = (items, term)
            return pub

        def request_channel(h, p):
            pub, items, term = scn.core_publisher(b'd', scn.k)
            w.objs['expect']['down'] = (items, term)
            sub = w.objs['rsub'] = RecSubscriber(w, 's0', 'rsub', request_on_subscribe=MAXN)
            return pub, sub

        conn, client, server = start_pair(w, self.flavour, s_beh={'request_stream': request_stream, 'request_channel': request_channel},
                                          client_kw={'setup_payload': Payload(b'sd', b'sm'), 'data_encoding': b'text/plain',
                                                     'metadata_encoding': b'message/x.rsocket.composite-metadata.v0'})
        rc = L['Client'](client)
        obs = w.objs['obs'] = RecObserver(w, 'c0', 'obs')
        st = w.objs['st'] = {}

        def start(w):
            if self.kind == 'stream-corehandler':
                o = rc.request_stream(P(b'req'), request_limit=self.limit)
            else:
                up = rx.from_iterable(els(b'u', self.up))
                o = rc.request_channel(P(b'req'), request_limit=self.limit, observable=up)
            st['disp'] = o.subscribe(obs)

        w.add_actor('app', [Step('subscribe', start, guard=lambda w: any(ev[0] == 'rx' and ev[2].type == R.SETUP for ev in w.log))])

    def check_corehandler(self, w, tag):
        out = []
        log, obs = w.log, w.objs['obs']
        tag = tag + '/down-' + self.ending
        sig = ''.join(s[0] for s in obs.signals)
        for i, ch in enumerate(sig):
            if ch in 'CE' and i != len(sig) - 1:
                out.append(('C20.observer-grammar', 'C20.observer-grammar | %s | %s-then-%s' % (tag, ch, sig[i + 1]), 'observer signals %s' % sig))
                break
        exp = w.objs['expect'].get('down')
        if exp is not None:
            got = [s[1] for s in obs.signals if s[0] == 'N' and s[1] != (b'', b'')]
            want = [pl(e) for e in exp[0]]
            if got != want:
                out.append(('C20.elements-preserved', 'C20.elements-preserved | %s | down | got=%d want=%d' % (tag, len(got), len(want)), 'observer got %s expected %s' % (got, want)))
            term = [s[0] for s in obs.signals if s[0] in 'CE']
            if term != [exp[1]]:
                out.append(('C20.terminal-preserved', 'C20.terminal-preserved | %s | down | %s-instead-of-%s' % (tag, ''.join(term) or 'none', exp[1]),
                            'observer signals %s, the handler publisher ended with %s' % (sig, exp[1])))
        req = [ev[2] for ev in log if ev[0] == 'tx' and ev[1] == 'c0' and ev[2].type in (R.REQUEST_STREAM, R.REQUEST_CHANNEL)]
        if req and req[0].request_n != self.limit:
            out.append(('C20.request-limit', 'C20.request-limit | %s | initial' % tag, 'initial request-n %d, request limit %d' % (req[0].request_n, self.limit)))
        rns = [ev[2].request_n for ev in log if ev[0] == 'tx' and ev[1] == 'c0' and ev[2].type == R.REQUEST_N]
        if any(n != self.limit for n in rns):
            out.append(('C20.request-limit', 'C20.request-limit | %s | request-n' % tag, 'REQUEST_N values %s, request limit %d' % (rns, self.limit)))
        if self.limit < MAXN and req:
            granted, got_n, worst = 0, 0, 0
            for ev in log:
                if ev[0] == 'tx' and ev[1] == 'c0' and ev[2].sid == req[0].sid and ev[2].type in (R.REQUEST_STREAM, R.REQUEST_CHANNEL, R.REQUEST_N):
                    granted += ev[2].request_n
                elif ev[0] == 'rx' and ev[1] == 'c0' and ev[2].sid == req[0].sid and ev[2].type == R.PAYLOAD and ev[2].next and not ev[2].follows:
                    got_n += 1
                worst = max(worst, granted - got_n)
            if worst > self.limit:
                out.append(('C20.request-limit', 'C20.request-limit | %s | outstanding-demand | requester' % tag, 'requester had %d elements of demand outstanding with request limit %d' % (worst, self.limit)))
        if self.kind == 'channel-corehandler':
            rsub = w.objs.get('rsub')
            if rsub is not None:
                gotu = [e for e in rsub.elements() if e != (b'', b'')]
                wantu = [pl(e) for e in els(b'u', self.up)]
                if gotu != wantu:
                    out.append(('C20.elements-preserved', 'C20.elements-preserved | %s | up | got=%d want=%d' % (tag, len(gotu), len(wantu)), 'core handler subscriber got %s expected %s' % (gotu, wantu)))
                t = rsub.terminal()
                if t is None or t[0] == 'E':
                    out.append(('C20.terminal-preserved', 'C20.terminal-preserved | %s | up | %s' % (tag, 'missing-complete' if t is None else 'error'), 'core handler subscriber signals %s' % [s[0] for s in rsub.signals]))
        out += [(r, s_ + ' | ' + tag, d) for r, s_, d in monitors.credit(log, 's0', prop='C20')]
        for msg, exc, txt in w.loop.read_exc_log():
            if exc not in (None, 'CancelledError'):
                out.append(('C20.no-unhandled-exception', 'C20.no-unhandled-exception | %s | %s' % (tag, exc), '%s: %s' % (msg, txt)))
        return out

    def nontrivial(self, w):
        return self.dispose or self.err is not None or self.limit < max(self.k, 1)

    def outcome(self, w):
        return (self.kind, ''.join(s[0] for s in w.objs['obs'].signals), len([1 for ev in w.log if ev[0] == 'tx' and ev[2].type == R.CANCEL]))


def make_units(tier):
    units = []
    bound = 2 if tier == 'quick' else 3
    for api in ('rx3', 'rx4'):
        n = 0
        for kind in ('stream', 'channel'):
            for k in (0, 1, 3):
                for limit in (1, 2, MAXN):
                    for err in (None, 0, 1):
                        for source in ('plain', 'bp'):
                            for dispose in (False, True):
                                n += 1
                                if tier == 'quick' and dispose and (err is not None or k == 0):
                                    continue
                                if err is not None and err > k:
                                    continue
                                flavour = 'tcp' if n % 3 else 'msg'
                                units.append(dict(api=api, kind=kind, k=k, limit=limit, err=err, source=source, dispose=dispose,
                                                  up=((5 if n % 4 == 1 else 3) if kind == 'channel' and n % 2 else 0), flavour=flavour, empty=False, bound=bound))
        for k in (0, 3, 5):
            for source in ('plain', 'bp'):
                for err in (None, 1):
                    units.append(dict(api=api, kind='stream-core', k=k, limit=MAXN, err=err if (err is None or err <= k) else None, source=source, dispose=False, up=0,
                                      flavour='tcp', empty=False, bound=bound))
        # one side on the core API: its sources end with a COMPLETE-flagged element, a separate completion or an error
        for ending in ('flag', 'complete', 'error'):
            for limit in (1, 2, 3, MAXN):
                for n_el in (0, 1, 2, 3, 4) if tier == 'quick' else (0, 1, 2, 3, 4, 6):
                    units.append(dict(api=api, kind='channel-core', k=2, limit=limit, err=None, source='plain', dispose=False, up=n_el, flavour='tcp',
                                      empty=False, bound=1 if tier == 'quick' else 2, ending=ending))
                    units.append(dict(api=api, kind='stream-corehandler', k=n_el, limit=limit, err=None, source='plain', dispose=False, up=0, flavour='tcp',
                                      empty=False, bound=1 if tier == 'quick' else 2, ending=ending))
                    units.append(dict(api=api, kind='channel-corehandler', k=n_el, limit=limit, err=None, source='plain', dispose=False, up=2, flavour='tcp',
                                      empty=False, bound=1 if tier == 'quick' else 2, ending=ending))
        for kind, empty in (('rr', False), ('rr', True), ('rr', 'meta'), ('rr', 'data'), ('rr-error', False), ('fnf', False), ('push', False)):
            for flavour in ('tcp', 'msg'):
                units.append(dict(api=api, kind=kind, k=0, limit=MAXN, err=None, source='plain', dispose=False, up=0, flavour=flavour, empty=empty, bound=bound))
    return units


def scenario_of(u):
    return RxScn(u['api'], u['kind'], u['k'], u['limit'], u['err'], u['source'], u['dispose'], u['up'], u['flavour'], u['empty'],
                 alts=('all',), modes=('Q', '1', '0') if u['dispose'] else (('Q', '0') if u['kind'] == 'stream-core' else ('Q',)), ending=u.get('ending', 'flag'))


def run_unit(unit, part):
    dev_explore(scenario_of(unit), unit['bound'], part, det_every=100)


def scenario_from(name, p):
    return RxScn(p['api'], p['kind'], p['k'], p['limit'], p['err'], p['source'], p['dispose'], p['up'], p['flavour'], p['empty'],
                 tuple(p['alts']), tuple(p['modes']), p.get('ending', 'flag'))


def replay(rec):
    w = rec['witness']
    return bool(replay_witness(scenario_from(w['scenario'], w['params']), w))
