"""Independent reference decoder for RSocket 1.0 frames (written from the protocol specification, not from the code
under test). Used by wire monitors and by the simulated link to find frame boundaries."""
import struct

SETUP, LEASE, KEEPALIVE, REQUEST_RESPONSE, REQUEST_FNF, REQUEST_STREAM, REQUEST_CHANNEL, REQUEST_N, CANCEL, PAYLOAD, \
    ERROR, METADATA_PUSH, RESUME, RESUME_OK = range(1, 15)
EXT = 0x3F
NAMES = {1: 'SETUP', 2: 'LEASE', 3: 'KEEPALIVE', 4: 'REQUEST_RESPONSE', 5: 'REQUEST_FNF', 6: 'REQUEST_STREAM',
         7: 'REQUEST_CHANNEL', 8: 'REQUEST_N', 9: 'CANCEL', 10: 'PAYLOAD', 11: 'ERROR', 12: 'METADATA_PUSH', 13: 'RESUME',
         14: 'RESUME_OK', 0x3F: 'EXT'}
REQUEST_TYPES = (REQUEST_RESPONSE, REQUEST_FNF, REQUEST_STREAM, REQUEST_CHANNEL)

F_IGNORE, F_METADATA, F_FOLLOWS, F_COMPLETE, F_NEXT = 0x200, 0x100, 0x80, 0x40, 0x20
F_RESUME = F_RESPOND = 0x80
F_LEASE = 0x40


class RefFrame:
    __slots__ = ('raw', 'sid', 'type', 'flags', 'metadata', 'data', 'request_n', 'error_code', 'position', 'ttl',
                 'count', 'major', 'minor', 'keepalive_ms', 'lifetime_ms', 'token', 'metadata_mime', 'data_mime', 'bad')

    def __init__(self):
        for s in self.__slots__:
            setattr(self, s, None)

    @property
    def name(self):
        return NAMES.get(self.type, 'T%d' % self.type)

    def flag(self, bit):
        return bool(self.flags & bit)

    @property
    def follows(self):
        return self.flag(F_FOLLOWS)

    @property
    def complete(self):
        return self.flag(F_COMPLETE)

    @property
    def next(self):
        return self.flag(F_NEXT)

    def brief(self):
        fl = ''
        if self.type in (PAYLOAD, REQUEST_CHANNEL, REQUEST_RESPONSE, REQUEST_FNF, REQUEST_STREAM):
            fl = ''.join(c for c, b in (('F', F_FOLLOWS), ('C', F_COMPLETE), ('N', F_NEXT)) if self.flags & b)
        elif self.type == KEEPALIVE:
            fl = 'R' if self.flags & F_RESPOND else ''
        extra = ''
        if self.request_n is not None:
            extra = ' n=%d' % self.request_n
        if self.error_code is not None:
            extra = ' code=0x%x' % self.error_code
        ln = ''
        if self.type in (PAYLOAD, REQUEST_CHANNEL, REQUEST_RESPONSE, REQUEST_FNF, REQUEST_STREAM, METADATA_PUSH):
            ln = ' m%d d%d' % (len(self.metadata or b''), len(self.data or b''))
        return '%s[%d]%s%s%s' % (self.name, self.sid, ('/' + fl) if fl else '', extra, ln)

    __repr__ = brief


def decode(raw):
    """Decode one frame (without length prefix). Never raises: a frame it cannot understand gets .bad set."""
    f = RefFrame()
    f.raw = bytes(raw)
    raw = f.raw
    if len(raw) < 6:
        f.bad = 'short'
        f.sid, f.type, f.flags = -1, -1, 0
        return f
    sid, tf = struct.unpack_from('>IH', raw, 0)
    f.sid = sid & 0x7FFFFFFF
    f.type = tf >> 10
    f.flags = tf & 0x3FF
    off = 6
    try:
        t = f.type
        if t in (REQUEST_STREAM, REQUEST_CHANNEL, REQUEST_N):
            f.request_n = struct.unpack_from('>I', raw, off)[0]
            off += 4
        elif t == ERROR:
            f.error_code = struct.unpack_from('>I', raw, off)[0]
            off += 4
        elif t == KEEPALIVE:
            f.position = struct.unpack_from('>Q', raw, off)[0] & 0x7FFFFFFFFFFFFFFF
            off += 8
        elif t == LEASE:
            f.ttl, f.count = struct.unpack_from('>II', raw, off)
            f.ttl &= 0x7FFFFFFF
            f.count &= 0x7FFFFFFF
            off += 8
        elif t == SETUP:
            f.major, f.minor, f.keepalive_ms, f.lifetime_ms = struct.unpack_from('>HHII', raw, off)
            off += 12
            if f.flags & F_RESUME:
                tl = struct.unpack_from('>H', raw, off)[0]
                off += 2
                f.token = raw[off:off + tl]
                off += tl
            ml = raw[off]
            f.metadata_mime = raw[off + 1:off + 1 + ml]
            off += 1 + ml
            dl = raw[off]
            f.data_mime = raw[off + 1:off + 1 + dl]
            off += 1 + dl
        elif t == RESUME:
            f.major, f.minor = struct.unpack_from('>HH', raw, off)
            off += 4
            tl = struct.unpack_from('>H', raw, off)[0]
            off += 2
            f.token = raw[off:off + tl]
            off += tl + 16
        elif t == RESUME_OK:
            f.position = struct.unpack_from('>Q', raw, off)[0] & 0x7FFFFFFFFFFFFFFF
            off += 8
        if t in (SETUP, REQUEST_RESPONSE, REQUEST_FNF, REQUEST_STREAM, REQUEST_CHANNEL, PAYLOAD):
            if f.flags & F_METADATA:
                ml = int.from_bytes(raw[off:off + 3], 'big')
                off += 3
                f.metadata = raw[off:off + ml]
                if len(f.metadata) != ml:
                    f.bad = 'metadata-truncated'
                off += ml
            f.data = raw[off:]
        elif t in (METADATA_PUSH, LEASE):
            f.metadata = raw[off:] if (f.flags & F_METADATA) else b''
        elif t in (ERROR, KEEPALIVE):
            f.data = raw[off:]
    except (struct.error, IndexError):
        f.bad = 'truncated'
    return f


def split_prefixed(buf, start=0):
    """Yield (begin, end) of every complete 3-byte-length-prefixed frame in buf[start:] (end exclusive, prefix
    included). Stops at the first incomplete one."""
    pos = start
    n = len(buf)
    while pos + 3 <= n:
        ln = int.from_bytes(buf[pos:pos + 3], 'big')
        if pos + 3 + ln > n:
            break
        yield pos, pos + 3 + ln
        pos += 3 + ln


# ---- reference encoder (for scripted peers) ----------------------------------------------------------------------
def _hdr(t, sid, flags):
    return struct.pack('>IH', sid & 0x7FFFFFFF, ((t & 0x3F) << 10) | (flags & 0x3FF))


def _md(metadata, data, flags):
    out = b''
    if metadata is not None:
        flags |= F_METADATA
        out += len(metadata).to_bytes(3, 'big') + metadata
    return flags, out + (data or b'')


def enc_setup(keepalive_ms=500, lifetime_ms=600000, metadata_mime=b'application/json', data_mime=b'application/json',
              data=b'', metadata=None, lease=False, resume_token=None, major=1, minor=0):
    flags = 0
    if lease:
        flags |= F_LEASE
    body = struct.pack('>HHII', major, minor, keepalive_ms, lifetime_ms)
    if resume_token is not None:
        flags |= F_RESUME
        body += struct.pack('>H', len(resume_token)) + resume_token
    body += bytes([len(metadata_mime)]) + metadata_mime + bytes([len(data_mime)]) + data_mime
    flags, tail = _md(metadata, data, flags)
    return _hdr(SETUP, 0, flags) + body + tail


def enc_request(t, sid, data=b'', metadata=None, n=None, follows=False, complete=False):
    flags = (F_FOLLOWS if follows else 0) | (F_COMPLETE if complete else 0)
    body = b''
    if t in (REQUEST_STREAM, REQUEST_CHANNEL):
        body = struct.pack('>I', n if n is not None else 0x7FFFFFFF)
    flags, tail = _md(metadata, data, flags)
    return _hdr(t, sid, flags) + body + tail


def enc_payload(sid, data=b'', metadata=None, follows=False, complete=False, next=True):
    flags = (F_FOLLOWS if follows else 0) | (F_COMPLETE if complete else 0) | (F_NEXT if next else 0)
    flags, tail = _md(metadata, data, flags)
    return _hdr(PAYLOAD, sid, flags) + tail


def enc_request_n(sid, n):
    return _hdr(REQUEST_N, sid, 0) + struct.pack('>I', n)


def enc_cancel(sid):
    return _hdr(CANCEL, sid, 0)


def enc_error(sid, code, data=b''):
    return _hdr(ERROR, sid, 0) + struct.pack('>I', code) + data


def enc_keepalive(respond, data=b'', position=0):
    return _hdr(KEEPALIVE, 0, F_RESPOND if respond else 0) + struct.pack('>Q', position) + data


def enc_lease(ttl_ms, count, metadata=None):
    flags = F_METADATA if metadata is not None else 0
    return _hdr(LEASE, 0, flags) + struct.pack('>II', ttl_ms, count) + (metadata or b'')


def enc_metadata_push(metadata, sid=0):
    return _hdr(METADATA_PUSH, sid, F_METADATA) + metadata


def enc_resume(token=b'tok', last_server=0, first_client=0):
    return _hdr(RESUME, 0, 0) + struct.pack('>HHH', 1, 0, len(token)) + token + struct.pack('>QQ', last_server, first_client)


def enc_resume_ok(position=0):
    return _hdr(RESUME_OK, 0, 0) + struct.pack('>Q', position)


def prefixed(raw):
    return len(raw).to_bytes(3, 'big') + raw
