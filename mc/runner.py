"""Check runner: work-unit pool, violation bookkeeping, known findings, replay artefacts, evidence files."""
import hashlib
import importlib
import json
import multiprocessing as mp
import os
import random
import signal
import sys
import time
import traceback

VERIF = os.path.dirname(os.path.dirname(os.path.abspath(__file__)))
EVIDENCE_DIR = os.path.join(VERIF, 'evidence')
REPLAY_DIR = os.path.join(VERIF, 'replays')
KNOWN_FINDINGS = os.path.join(VERIF, 'known_findings.json')

NPROC = int(os.environ.get('VERIF_NPROC', '16'))


class Watchdog(BaseException):
    """Raised by SIGALRM inside a worker: BaseException so library `except Exception` blocks cannot swallow it."""


WATCHDOG_FIRED = False


def _alarm(signum, frame):
    # asyncio.Task stores a BaseException raised inside a coroutine step instead of propagating it, so the alarm
    # also sets a flag the virtual loop polls, and re-arms itself until the execution is really abandoned.
    global WATCHDOG_FIRED
    WATCHDOG_FIRED = True
    signal.setitimer(signal.ITIMER_REAL, 1.0)
    raise Watchdog('execution exceeded its wall-clock budget')


def arm_watchdog(seconds):
    global WATCHDOG_FIRED
    WATCHDOG_FIRED = False
    signal.signal(signal.SIGALRM, _alarm)
    signal.setitimer(signal.ITIMER_REAL, seconds)


def disarm_watchdog():
    global WATCHDOG_FIRED
    signal.setitimer(signal.ITIMER_REAL, 0)
    WATCHDOG_FIRED = False


def watchdog_fired():
    return WATCHDOG_FIRED


def h64(obj):
    """Stable 64-bit hash of a canonical (repr-able) value."""
    if not isinstance(obj, (bytes, bytearray)):
        obj = repr(obj).encode()
    return int.from_bytes(hashlib.blake2b(obj, digest_size=8).digest(), 'big')


class Violation:
    __slots__ = ('rule', 'signature', 'detail', 'witness')

    def __init__(self, rule, signature, detail, witness):
        self.rule = rule
        self.signature = signature
        self.detail = detail
        self.witness = witness

    def to_dict(self):
        return {'rule': self.rule, 'signature': self.signature, 'detail': self.detail, 'witness': self.witness}


class Partial:
    """What one work unit reports back to the parent."""

    def __init__(self):
        self.evaluations = 0
        self.transitions = 0
        self.traces = 0
        self.states = set()
        self.nontrivial = set()
        self.outcomes = set()
        self.samples = []
        self.violations = {}  # signature -> Violation (first witness per signature)
        self.violation_count = 0
        self.caps = []
        self.extra = {}
        self.determinism_checks = 0

    def state(self, canon):
        self.states.add(h64(canon))

    def nontriv(self, canon):
        self.nontrivial.add(h64(canon))

    def outcome(self, canon):
        self.outcomes.add(h64(canon))

    def sample(self, s, limit=3):
        if len(self.samples) < limit:
            self.samples.append(s)

    def violate(self, rule, signature, detail, witness):
        self.violation_count += 1
        if signature not in self.violations:
            self.violations[signature] = Violation(rule, signature, detail, witness)
            _spool(rule, signature, detail, witness)

    def add_extra(self, key, n=1):
        self.extra[key] = self.extra.get(key, 0) + n

    def merge(self, other):
        self.evaluations += other.evaluations
        self.transitions += other.transitions
        self.traces += other.traces
        self.states |= other.states
        self.nontrivial |= other.nontrivial
        self.outcomes |= other.outcomes
        for s in other.samples:
            if len(self.samples) < 8:
                self.samples.append(s)
        for sig, v in other.violations.items():
            if sig not in self.violations:
                self.violations[sig] = v
        self.violation_count += other.violation_count
        self.caps.extend(other.caps)
        self.determinism_checks += other.determinism_checks
        for k, v in other.extra.items():
            if isinstance(v, (int, float)):
                self.extra[k] = self.extra.get(k, 0) + v
            else:
                self.extra.setdefault(k, v)


_WORKER_MOD = None
SPOOL_PATH = None  # set by run_property: violations are also appended here the moment they are found, so that a run that hits
                   # its wall-clock budget (e.g. because the code under test no longer terminates) still reports them


def _spool(rule, signature, detail, witness):
    if not SPOOL_PATH:
        return
    try:
        line = json.dumps(_jsonable({'rule': rule, 'signature': signature, 'detail': str(detail)[:2000], 'witness': witness})) + '\n'
        fd = os.open(SPOOL_PATH, os.O_WRONLY | os.O_APPEND | os.O_CREAT, 0o644)
        try:
            os.write(fd, line.encode())
        finally:
            os.close(fd)
    except Exception:
        pass


def _read_spool():
    out = []
    try:
        with open(SPOOL_PATH) as f:
            for line in f:
                try:
                    out.append(json.loads(line))
                except ValueError:
                    pass
    except OSError:
        pass
    return out


def _worker_init(modname, src):
    global _WORKER_MOD
    if src:
        sys.path.insert(0, src)
    signal.signal(signal.SIGINT, signal.SIG_IGN)
    import logging
    logging.disable(logging.CRITICAL)
    _WORKER_MOD = importlib.import_module(modname)
    if hasattr(_WORKER_MOD, 'worker_init'):
        _WORKER_MOD.worker_init()


def _worker_run(unit):
    part = Partial()
    try:
        _WORKER_MOD.run_unit(unit, part)
    except Watchdog as w:
        part.violate('harness.watchdog', 'harness.watchdog | %r' % (unit.get('name', '?') if isinstance(unit, dict) else unit,),
                     'unit exceeded watchdog: %s' % w, {'unit': _jsonable(unit)})
    except BaseException:
        part.extra['harness_error'] = traceback.format_exc()
    return part


def _jsonable(x):
    try:
        json.dumps(x)
        return x
    except (TypeError, ValueError):
        if isinstance(x, dict):
            return {str(k): _jsonable(v) for k, v in x.items()}
        if isinstance(x, (list, tuple, set, frozenset)):
            return [_jsonable(v) for v in x]
        if isinstance(x, (bytes, bytearray)):
            return {'hex': bytes(x).hex()}
        return repr(x)


def load_known_findings():
    try:
        with open(KNOWN_FINDINGS) as f:
            return json.load(f).get('findings', [])
    except FileNotFoundError:
        return []


def run_property(prop_id, modname, tier, seed, deadline_s=None):
    """Run one property check. Returns process exit code."""
    t0 = time.time()
    mod = importlib.import_module(modname)
    src = os.environ.get('RSOCKET_SRC')
    if src:
        sys.path.insert(0, src)
    units = list(mod.make_units(tier))
    rnd = random.Random(seed)
    rnd.shuffle(units)  # VERIF_SEED only permutes the hand-out order; the explored set is the same.
    total = Partial()
    global SPOOL_PATH
    spool_dir = REPLAY_DIR if not os.environ.get('RSOCKET_SRC') else '/var/tmp/verif_scratch_replays'
    os.makedirs(spool_dir, exist_ok=True)
    SPOOL_PATH = os.path.join(spool_dir, '.spool-%s-%d.jsonl' % (prop_id, os.getpid()))
    try:
        os.unlink(SPOOL_PATH)
    except OSError:
        pass
    budget = deadline_s if deadline_s is not None else getattr(mod, 'BUDGET_S', {}).get(tier)
    harness_error = None
    cap_hit = False
    nproc = min(NPROC, max(1, len(units)))
    if nproc == 1 or os.environ.get('VERIF_INPROC'):
        _worker_init(modname, None)
        it = map(_worker_run, units)
        pool = None
    else:
        ctx = mp.get_context('fork')
        pool = ctx.Pool(nproc, initializer=_worker_init, initargs=(modname, None), maxtasksperchild=None)
        it = pool.imap_unordered(_worker_run, units, chunksize=1)
    done_units = 0

    def results():
        # poll, so that the wall-clock budget is honoured even while every worker is busy with a long unit
        if pool is None:
            for p_ in it:
                yield p_
            return
        while True:
            try:
                yield it.next(timeout=5)
            except mp.TimeoutError:
                if budget and time.time() - t0 > budget:
                    yield None
                    return
            except StopIteration:
                return

    try:
        for part in results():
            if part is None:
                cap_hit = True
                break
            done_units += 1
            if 'harness_error' in part.extra:
                harness_error = part.extra.pop('harness_error')
                break
            total.merge(part)
            if budget and time.time() - t0 > budget:
                cap_hit = True
                break
    finally:
        if pool is not None:
            pool.terminate()
            pool.join()
    # violations found by units that never got to report back (budget hit while they were still running)
    for rec in _read_spool():
        if rec.get('signature') not in total.violations:
            total.violations[rec['signature']] = Violation(rec.get('rule'), rec['signature'], rec.get('detail'), rec.get('witness'))
    try:
        os.unlink(SPOOL_PATH)
    except OSError:
        pass
    SPOOL_PATH = None
    if harness_error:
        sys.stdout.write('HARNESS-ERROR property=%s\n%s\n' % (prop_id, harness_error))
        return 2
    if cap_hit:
        total.caps.append('wall-clock budget %ss hit after %d/%d work units' % (budget, done_units, len(units)))

    # --- known findings ---------------------------------------------------------------------------------------
    known = [k for k in load_known_findings() if k.get('property') == prop_id and k.get('status') == 'open']
    new, matched = [], {}
    for sig, v in sorted(total.violations.items()):
        hit = next((k for k in known if k['signature'] == sig), None)
        if hit is not None:
            matched[sig] = hit
        else:
            new.append(v)
    for sig, k in matched.items():
        print('KNOWN-FINDING: property=%s %s' % (prop_id, k['what']))
    rc = 0
    rdir = REPLAY_DIR if not os.environ.get('RSOCKET_SRC') else '/var/tmp/verif_scratch_replays'
    os.makedirs(rdir, exist_ok=True)
    for v in new:
        path = os.path.join(rdir, '%s-%016x.json' % (prop_id, h64(v.signature)))
        with open(path, 'w') as f:
            json.dump({'property': prop_id, 'module': modname, **_jsonable(v.to_dict())}, f, indent=1)
        print('VIOLATION property=%s replay=%s' % (prop_id, path))
        print('  rule=%s signature=%s' % (v.rule, v.signature))
        print('  detail=%s' % (str(v.detail)[:600],))
        rc = 1

    # --- evidence ---------------------------------------------------------------------------------------------
    wall = time.time() - t0
    cov = {
        'states': max(len(total.states), 0),
        'transitions': total.transitions,
        'traces_validated_against_impl': total.traces,
        'samples': _jsonable(total.samples[:8]) or ['<none>'],
        'evaluations': total.evaluations,
        'distinct_nontrivial': len(total.nontrivial),
        'distinct_outcomes': len(total.outcomes),
        'rule': getattr(mod, 'RULE', ''),
        'work_units': len(units),
        'work_units_completed': done_units,
        'caps_hit': total.caps,
        'exhaustive': (not total.caps) and done_units == len(units),
        'bounds': getattr(mod, 'bounds', lambda t: {})(tier),
        'determinism_replays': total.determinism_checks,
        'known_findings_matched': sorted(matched),
        'explanation': getattr(mod, 'EXPLANATION', ''),
    }
    for k, v in total.extra.items():
        cov.setdefault(k, v)
    ev = {
        'property_id': prop_id,
        'tier': tier,
        'seed': seed,
        'level': 'model_checking',
        'coverage': cov,
        'assumptions': getattr(mod, 'ASSUMPTIONS', []),
        'wall_s': round(wall, 3),
        'violations': len(new),
    }
    # runs against a scratch source tree (mutation testing) never touch the real evidence directory
    evdir = EVIDENCE_DIR if not os.environ.get('RSOCKET_SRC') else '/var/tmp/verif_scratch_evidence'
    os.makedirs(evdir, exist_ok=True)
    tmp = os.path.join(evdir, '.%s.json.tmp' % prop_id)
    with open(tmp, 'w') as f:
        json.dump(ev, f, indent=1)
    os.replace(tmp, os.path.join(evdir, '%s.json' % prop_id))
    print('%s %s: units=%d evaluations=%d states=%d transitions=%d traces=%d nontrivial=%d outcomes=%d '
          'violations(new)=%d known=%d wall=%.1fs exhaustive=%s' % (
              prop_id, tier, len(units), total.evaluations, len(total.states), total.transitions, total.traces,
              len(total.nontrivial), len(total.outcomes), len(new), len(matched), wall, cov['exhaustive']))
    return rc


def replay(path):
    with open(path) as f:
        rec = json.load(f)
    mod = importlib.import_module(rec['module'])
    _worker_init(rec['module'], os.environ.get('RSOCKET_SRC'))
    if not hasattr(mod, 'replay'):
        print('module %s has no replay()' % rec['module'])
        return 2
    ok = mod.replay(rec)
    if ok:
        print('REPRODUCED property=%s signature=%s' % (rec['property'], rec['signature']))
        return 1
    print('not reproduced')
    return 0
