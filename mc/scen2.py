"""Library of two-endpoint scenarios: mixes of the five interaction models started by either side, with explicit
application actors. Used by C01 (delivery), C08 (wire legality), C09 (cancel), C10 (no state survives)."""
from mc import monitors, refwire as R
from mc.app import RecSubscriber, RecPublisher, RecHandler, P, pl, b, watch_future, AppRaise
from mc.explore import Scenario
from mc.world import Step, start_pair

MAXN = 0x7FFFFFFF

_FILL = bytes((i * 13 + 7) % 256 for i in range(400))  # contains 0x00 and 0xFF


class Inter:
    """One interaction. kind rr|fnf|push|stream|channel; init c|s; tag single letter."""

    def __init__(self, kind, init, tag, down=0, up=0, size='S', pub='manual', credit='max', ending='complete',
                 rr_mode='now', cancel_after=None, up_ending='complete', resp_cancel=None):
        self.kind, self.init, self.tag = kind, init, tag
        # channel only: the responder's application cancels its inbound subscription ('onsub': inside on_subscribe, k: inside on_next
        # of the k-th element of the requester) and goes on answering
        self.resp_cancel = resp_cancel
        self.down, self.up, self.size, self.pub, self.credit = down, up, size, pub, credit
        self.ending, self.rr_mode, self.cancel_after, self.up_ending = ending, rr_mode, cancel_after, up_ending

    def spec(self):
        return dict(kind=self.kind, init=self.init, tag=self.tag, down=self.down, up=self.up, size=self.size,
                    pub=self.pub, credit=self.credit, ending=self.ending, rr_mode=self.rr_mode,
                    cancel_after=self.cancel_after, up_ending=self.up_ending, resp_cancel=self.resp_cancel)

    @staticmethod
    def from_spec(d):
        return Inter(**d)

    # -- payloads ------------------------------------------------------------------------------------------------
    def pay(self, role, i):
        """Payload number i sent by `role` ('q' request, 'u' upstream element, 'd' downstream element, 'r' response)."""
        head = ('%s%s%d:' % (self.tag, role, i)).encode()
        if self.size == 'S':
            if (i + {'q': 0, 'r': 0, 'd': 0, 'u': 1}[role]) % 3 == 2 and role in ('d', 'u'):
                return P(None, head + b'metadata-only')  # an element may consist of metadata alone
            if role == 'r' or (role == 'u' and i % 2 == 0):
                return P(bytearray(head + b'\x00\xff'), bytearray(head) if (i % 2) else None)  # bytearray payloads are ByteTypes too
            return P(head + b'\x00\xff', head if (i % 2) else None)
        if self.size == 'F':
            # fragmenting payloads; the shape rotates with the element index so that boundary sizes occur:
            # generic multi-fragment, exact multiple of the fragment body, exactly one full frame, one byte more, metadata only,
            # metadata tail ending 2 bytes short of a fragment (data shares that fragment), metadata exactly filling a fragment
            fs, flavour, rot = (tuple(getattr(self, 'ctx', (64, 'tcp'))) + (0,))[:3]
            body = (fs or 64) - 6 - (3 if flavour in ('tcp', 'quic') else 0)
            shape = (i + {'q': 0, 'r': 1, 'd': 0, 'u': 2}[role] + (3 if (self.tag == 'B' and role == 'q') else 0) + rot) % 7
            if shape == 0:
                return P(head + _FILL[:150 + i], head + _FILL[:70])
            if shape == 1:
                return P((head + _FILL)[:2 * body], None)
            if shape == 2:
                return P((head + _FILL)[:body], None)
            if shape == 3:
                return P((head + _FILL)[:body + 1], None)
            if shape == 5:
                return P(head + b'dd', (head + _FILL)[:body - 2])
            if shape == 6:
                return P(head + _FILL[:10], (head + _FILL)[:body])
            return P(None, head + _FILL[:130])
        if self.size == 'M':  # metadata only, more than one fragment of metadata
            return P(None, head + _FILL[:130])
        if self.size == 'X':  # fits exactly / off by one around a 64-byte fragment: header 6 + 3 prefix
            return P(head + _FILL[:64 - 9 - len(head) + (i % 2)], None)
        raise ValueError(self.size)


def tag_of(payload):
    d = b(payload.data) or b(payload.metadata)
    return chr(d[0]) if d else '?'


class Mix(Scenario):
    """A mix of interactions between a real client and a real server."""

    def shape_rotation(self):
        """Which of the 7 fragmenting payload shapes element 0 gets: varies from scenario to scenario (deterministically), so
        that every shape occurs in every position across a scenario set."""
        return sum(3 * it.down + 5 * it.up + len(it.kind) + (2 if it.init == 's' else 0) for it in self.inters) % 7

    def __init__(self, inters, flavour='tcp', fs=None, alts=('all',), modes=('Q',), monitors_=('delivery',),
                 name='mix', client_kw=None, server_kw=None, policy='deliver-first', round_robin=False, slow_sender=False, lazy_reverse=False):
        self.inters = inters
        self.flavour, self.fs = flavour, fs
        self.monitors = tuple(monitors_)
        self.name = name
        self.params = {'inters': [i.spec() for i in inters], 'flavour': flavour, 'fs': fs, 'alts': list(alts),
                       'modes': list(modes), 'monitors': list(monitors_), 'policy': policy, 'round_robin': round_robin, 'slow_sender': slow_sender, 'lazy_reverse': lazy_reverse}
        self.round_robin = round_robin
        self.slow_sender = slow_sender
        self.lazy_reverse = lazy_reverse
        self.world_kw = {'alts': alts, 'modes': modes, 'policy': policy}
        self.client_kw = client_kw or {}
        self.server_kw = server_kw or {}

    @staticmethod
    def from_params(p, name='mix'):
        return Mix([Inter.from_spec(d) for d in p['inters']], p['flavour'], p['fs'], tuple(p['alts']), tuple(p['modes']),
                   tuple(p['monitors']), name=name, policy=p.get('policy', 'deliver-first'), round_robin=p.get('round_robin', False), slow_sender=p.get('slow_sender', False), lazy_reverse=p.get('lazy_reverse', False))

    # ------------------------------------------------------------------------------------------------------------
    def setup(self, w):
        for i in self.inters:
            i.ctx = (self.fs, self.flavour, self.shape_rotation())
        by_tag = {i.tag: i for i in self.inters}
        w.objs['inters'] = by_tag
        st = w.objs['st'] = {i.tag: {} for i in self.inters}  # per-interaction runtime objects

        def mk_beh(side):
            def suspended(it, result):
                """The handler coroutine itself is suspended (the engine awaits it inside its receiver task) until released."""
                g = w.loop.create_future()
                st[it.tag]['hgate'] = g
                w.api(side, 'handler', 'suspended', it.tag)

                async def slow():
                    await g
                    return result()

                return slow()

            def request_fire_and_forget(h, p):
                it = by_tag.get(tag_of(p))
                if it is not None and it.rr_mode == 'slow':
                    return suspended(it, lambda: None)

            def on_metadata_push(h, p):
                it = by_tag.get(tag_of(p))
                if it is not None and it.rr_mode == 'slow':
                    return suspended(it, lambda: None)

            def request_response(h, p):
                it = by_tag[tag_of(p)]
                if it.rr_mode == 'now':
                    from rsocket.helpers import create_future
                    return create_future(it.pay('r', 0))
                if it.rr_mode == 'error':
                    from rsocket.helpers import create_error_future
                    return create_error_future(RuntimeError('app error ' + it.tag))
                if it.rr_mode == 'raise':
                    raise AppRaise('handler raises ' + it.tag)
                if it.rr_mode == 'slow':
                    # the handler coroutine itself is suspended (the engine awaits it inside its receiver) until released
                    g = w.loop.create_future()
                    st[it.tag]['hgate'] = g
                    w.api(side, 'handler', 'suspended', it.tag)

                    async def slow():
                        await g
                        from rsocket.helpers import create_future
                        return create_future(it.pay('r', 0))

                    return slow()
                f = w.loop.create_future()
                st[it.tag]['rrfut'] = f
                return f

            def request_stream(h, p):
                it = by_tag[tag_of(p)]
                if it.pub == 'raise':
                    raise AppRaise('handler raises ' + it.tag)
                if it.rr_mode == 'slow':
                    return suspended(it, lambda: self._publisher(w, it, side, 'd', it.down, it.ending))
                return self._publisher(w, it, side, 'd', it.down, it.ending)

            def request_channel(h, p):
                it = by_tag[tag_of(p)]
                if it.pub == 'raise':
                    raise AppRaise('handler raises ' + it.tag)
                if it.pub == 'nonenone':
                    return None, None  # handler neither sends nor listens
                if it.rr_mode == 'slow' and 'hgate' not in st[it.tag]:
                    return suspended(it, lambda: request_channel(h, p))
                pub = None if it.pub == 'none' else self._publisher(w, it, side, 'd', it.down, it.ending)
                sub = RecSubscriber(w, side, 'rsub' + it.tag,
                                    request_on_subscribe=(MAXN if it.credit == 'max' else 1),
                                    cancel_on_subscribe=(it.resp_cancel == 'onsub'),
                                    cancel_in_on_next=(it.resp_cancel if isinstance(it.resp_cancel, int) else None))
                if it.credit == 'one':
                    _auto_request(sub)
                st[it.tag]['rsub'] = sub
                return pub, sub

            return {'request_response': request_response, 'request_stream': request_stream,
                    'request_channel': request_channel, 'request_fire_and_forget': request_fire_and_forget,
                    'on_metadata_push': on_metadata_push}

        conn, client, server = start_pair(w, self.flavour, c_beh=mk_beh('c0'), s_beh=mk_beh('s0'),
                                          client_kw=dict(fragment_size_bytes=self.fs, **self.client_kw),
                                          server_kw=dict(fragment_size_bytes=self.fs, **self.server_kw))
        w.objs['client'], w.objs['server'], w.objs['conn'] = client, server, conn
        if self.slow_sender:
            # every transport write of both endpoints completes only on an explicit release event, which comes after
            # the application actions in the default order: send queues grow deep
            conn.c2s.always_block = True
            conn.s2c.always_block = True
        for it in self.inters:
            sock = client if it.init == 'c' else server
            side = 'c0' if it.init == 'c' else 's0'
            self._requester_actor(w, it, sock, side)
        if self.lazy_reverse and w.objs.get('lazy_subs'):
            lazy = w.objs['lazy_subs']
            allc = lambda w: all(g(w) for _, _, g in lazy)
            w.add_actor('lazysub', [Step('subscribe' + tag, fn, guard=allc) for tag, fn, _ in reversed(lazy)])
        if self.round_robin:
            w.objs['rr_pending'] = True

    def _merge_publisher_actors(self, w):
        """Publisher pacing 'alternating': the emission steps of all manual publishers form ONE actor that emits
        A0, B0, A1, B1, ... so that a slow sender sees frames of two streams interleaved in its queue."""
        pubs = [a for a in w.actors if a.name.startswith('pub') and a.pc == 0]
        if len(pubs) < 2:
            return
        merged = []
        for i in range(max(len(a.steps) for a in pubs)):
            for a in pubs:
                if i < len(a.steps):
                    st = a.steps[i]
                    merged.append(Step(a.name + ':' + st.label, st.fn, st.guard))
        for a in pubs:
            w.actors.remove(a)
        w.add_actor('pubs', merged)
        w.objs['rr_pending'] = False

    def _publisher(self, w, it, side, role, count, ending):
        """Publisher producing `count` elements it.pay(role, i)."""
        st = w.objs['st'][it.tag]
        if it.pub in ('manual', 'manual-craise'):
            # 'manual-craise': the application's publisher raises from cancel() (a cleanup step that fails)
            pub = RecPublisher(w, side, 'pub' + it.tag + role, raise_in=('cancel',) if it.pub == 'manual-craise' else None)
            st['pub' + role] = pub
            steps = []
            for i in range(count):
                last = i == count - 1

                def emit(w, i=i, last=last):
                    pub.emit(it.pay(role, i), complete=(last and ending == 'flag'))

                steps.append(Step('emit%d' % i, emit, guard=lambda w, i=i: pub.subscriber is not None and pub.requested > i
                                  and not pub.cancelled))
            if ending == 'complete' or count == 0:
                steps.append(Step('complete', lambda w: pub.complete(),
                                  guard=lambda w: pub.subscriber is not None and not pub.cancelled and
                                  (count > 0 or pub.requested > 0)))
            elif ending == 'error':
                steps.append(Step('error', lambda w: pub.error(RuntimeError('app error ' + it.tag)),
                                  guard=lambda w: pub.subscriber is not None and not pub.cancelled))
            w.add_actor('pub' + it.tag + role, steps)
            if w.objs.get('rr_pending') and sum(1 for a in w.actors if a.name.startswith('pub')) >= 2:
                self._merge_publisher_actors(w)
            return pub

        if it.pub in ('rx3', 'rx4', 'rx3bp', 'rx4bp', 'rx3bpq', 'rx4bpq'):
            return self._rx_publisher(w, it, side, role, count)

        if it.pub in ('subcomplete', 'suberror'):
            from mc.app import EagerTerminalPublisher
            pub = EagerTerminalPublisher(w, side, 'pub' + it.tag + role, error=(it.pub == 'suberror'))
            st['pub' + role] = pub
            return pub

        if it.pub == 'sync':
            from mc.app import SyncPublisher
            pub = SyncPublisher(w, side, 'pub' + it.tag + role, [it.pay(role, i) for i in range(count)], flag=(ending == 'flag'))
            st['pub' + role] = pub
            return pub

        pname = 'pub' + it.tag + role

        def gen():
            for i in range(count):
                w.api(side, pname, 'produce', (i,))
                yield it.pay(role, i), (i == count - 1)

        async def agen():
            for i in range(count):
                w.api(side, pname, 'produce', (i,))
                yield it.pay(role, i), (i == count - 1)

        cb = {'on_cancel': lambda: w.api(side, 'pub' + it.tag + role, 'cancel', ()),
              'on_complete': lambda: w.api(side, 'pub' + it.tag + role, 'completed', ())}
        if it.pub in ('genfactory', 'agenfactory'):
            # the source cannot be opened: the factory handed to the library raises when it is called (an application error)
            def factory():
                raise RuntimeError('source cannot be opened ' + it.tag)

            if it.pub == 'genfactory':
                from rsocket.streams.stream_from_generator import StreamFromGenerator as Src
            else:
                from rsocket.streams.stream_from_async_generator import StreamFromAsyncGenerator as Src
            pub = Src(factory, **cb)
        elif it.pub in ('gen', 'raise'):
            from rsocket.streams.stream_from_generator import StreamFromGenerator
            pub = StreamFromGenerator(gen, **cb)
        else:
            from rsocket.streams.stream_from_async_generator import StreamFromAsyncGenerator
            pub = StreamFromAsyncGenerator(agen, **cb)
        st['pub' + role] = pub
        return pub

    def _rx_publisher(self, w, it, side, role, count):
        """Rx (v3) / ReactiveX (v4) observable-backed publishers of the library."""
        import asyncio
        st = w.objs['st'][it.tag]
        items = [it.pay(role, i) for i in range(count)]
        if it.pub.startswith('rx3'):
            import rx as RX
            from rsocket.rx_support import back_pressure_publisher as bp
        else:
            import reactivex as RX
            from rsocket.reactivex import back_pressure_publisher as bp
        name = 'pub' + it.tag + role
        if it.pub.endswith('bpq'):
            # back-pressure source over a queue that the application fills one element per application event (paced production):
            # with credit to spare, a CANCEL arrives while the source is waiting for the next element
            counter = [0]

            class LoggedQueue(asyncio.Queue):
                async def get(self_q):
                    v = await asyncio.Queue.get(self_q)
                    if v is not None:
                        w.api(side, name, 'produce', (counter[0],))
                        counter[0] += 1
                    return v

            q = LoggedQueue()
            steps = [Step('feed%d' % i, lambda w, e=e: q.put_nowait(e)) for i, e in enumerate(items)]
            steps.append(Step('feed-end', lambda w: q.put_nowait(None)))
            w.add_actor('feed' + it.tag + role, steps)

            def factory(backpressure):
                backpressure.subscribe(on_next=lambda n: w.api(side, name, 'request', (n,)),
                                       on_completed=lambda: w.api(side, name, 'cancel', ()))
                return bp.observable_from_queue(q, backpressure)

            pub = bp.observable_to_publisher(bp.from_observable_with_backpressure(factory))
        elif it.pub.endswith('bp'):
            q = asyncio.Queue()
            for e in items:
                q.put_nowait(e)
            q.put_nowait(None)

            def factory(backpressure):
                backpressure.subscribe(on_next=lambda n: w.api(side, name, 'request', (n,)),
                                       on_completed=lambda: w.api(side, name, 'cancel', ()))
                return bp.observable_from_queue(q, backpressure)

            pub = bp.observable_to_publisher(bp.from_observable_with_backpressure(factory))
        else:
            pub = bp.observable_to_publisher(RX.from_iterable(items))
        st['pub' + role] = pub
        return pub

    def _requester_actor(self, w, it, sock, side):
        st = w.objs['st'][it.tag]
        steps = []
        if it.kind == 'rr':
            def go(w):
                st['fut'] = watch_future(w, side, 'fut' + it.tag, sock.request_response(it.pay('q', 0)))

            steps.append(Step('request', go))
            if it.cancel_after is not None:
                def cancel_rr(w):
                    st['cancel_log'] = len(w.log)
                    st['pending_at_cancel'] = not st['fut']['future'].done()
                    st['fut']['future'].cancel()

                steps.append(Step('cancel', cancel_rr))
            if it.rr_mode in ('late', 'late-error'):
                def resolve(w):
                    if not st['rrfut'].done():
                        if it.rr_mode == 'late':
                            st['rrfut'].set_result(it.pay('r', 0))
                        else:
                            st['rrfut'].set_exception(RuntimeError('app error ' + it.tag))

                w.add_actor('res' + it.tag, [Step('resolve', resolve, guard=lambda w: 'rrfut' in st)])
        elif it.kind == 'fnf':
            steps.append(Step('request', lambda w: st.__setitem__('fut', watch_future(w, side, 'fnf' + it.tag, sock.fire_and_forget(it.pay('q', 0))))))
        elif it.kind == 'push':
            steps.append(Step('request', lambda w: st.__setitem__('fut', watch_future(w, side, 'push' + it.tag, sock.metadata_push(b(it.pay('q', 1).metadata))))))
        elif it.kind in ('stream-unsub', 'rx-stream-unsub', 'channel-unsub'):
            # the application obtained the publisher / observable but has not subscribed to it (yet)
            def go_unsub(w):
                if it.kind == 'stream-unsub':
                    st['unsub'] = sock.request_stream(it.pay('q', 0))
                elif it.kind == 'channel-unsub':
                    st['unsub'] = sock.request_channel(it.pay('q', 0))
                else:
                    from rsocket.reactivex.reactivex_client import ReactiveXClient
                    st['unsub'] = ReactiveXClient(sock).request_stream(it.pay('q', 0))

            steps.append(Step('request', go_unsub))
        else:
            # credit 'onsub': initial request-n 1, the rest granted by subscription.request(n) from inside on_subscribe
            # cancel_after >= 100: cancel from inside on_next of element number cancel_after-100
            def before_cancel(sub_, was_complete):
                st['cancel_log'] = len(w.log)
                st['pending_at_cancel'] = not was_complete
                st['sid'] = getattr(sub_.subscription, 'stream_id', None)

            inside = it.cancel_after is not None and it.cancel_after >= 100
            sub = RecSubscriber(w, side, 'sub' + it.tag, cancel_on_subscribe=(it.cancel_after == -1),
                                request_on_subscribe=(7 if it.credit == 'onsub' else ((MAXN, MAXN) if it.credit == 'onsubmax' else None)),
                                cancel_in_on_next=(it.cancel_after - 100 if inside else None), before_cancel=before_cancel)
            st['sub'] = sub
            n0 = MAXN if it.credit == 'max' else 1
            if it.credit == 'one':
                _auto_request(sub)

            def go(w):
                if it.kind == 'stream':
                    sock.request_stream(it.pay('q', 0)).initial_request_n(n0).subscribe(sub)
                else:
                    up = self._publisher(w, it, side, 'u', it.up, it.up_ending) if it.up >= 0 else None
                    sock.request_channel(it.pay('q', 0), up).initial_request_n(n0).subscribe(sub)

            if getattr(self, 'lazy_reverse', False) and it.cancel_after is None:
                # the application creates its request objects first and subscribes to them later, in the REVERSE order of creation
                # (the stream id is allocated at creation, the request frame goes out at subscribe())
                def create(w):
                    if it.kind == 'stream':
                        st['lazy'] = sock.request_stream(it.pay('q', 0)).initial_request_n(n0)
                    else:
                        up = self._publisher(w, it, side, 'u', it.up, it.up_ending) if it.up >= 0 else None
                        st['lazy'] = sock.request_channel(it.pay('q', 0), up).initial_request_n(n0)

                steps.append(Step('create', create))
                w.objs.setdefault('lazy_subs', []).append((it.tag, lambda w: st['lazy'].subscribe(sub), lambda w: 'lazy' in st))
            elif it.cancel_after == -1:
                def go_and_note(w, go=go):
                    st['cancel_log'] = len(w.log)
                    st['pending_at_cancel'] = True
                    go(w)

                steps.append(Step('request', go_and_note))
            else:
                steps.append(Step('request', go))
            if it.cancel_after is not None and 0 <= it.cancel_after < 100:
                k = it.cancel_after

                def cancel(w):
                    st['cancel_log'] = len(w.log)
                    st['pending_at_cancel'] = sub.terminal() is None
                    st['sid'] = getattr(sub.subscription, 'stream_id', None)
                    sub.subscription.cancel()
                    sub.mark_cancel()

                steps.append(Step('cancel', cancel, guard=lambda w: sub.subscription is not None and len(sub.elements()) >= k))
        w.add_actor('req' + it.tag, steps)
        if it.rr_mode == 'slow':
            def release(w):
                if not st['hgate'].done():
                    st['hgate'].set_result(None)

            w.add_actor('rel' + it.tag, [Step('release', release, guard=lambda w: 'hgate' in st)])

    # ------------------------------------------------------------------------------------------------------------
    def check(self, w):
        out = []
        if 'delivery' in self.monitors:
            out += self.check_delivery(w)
        if 'legality' in self.monitors:
            out += monitors.wire_legality(w.log, 'c0', 'client')
            out += monitors.wire_legality(w.log, 's0', 'server')
        if 'grammar' in self.monitors:
            for it in self.inters:
                for key in ('sub', 'rsub'):
                    s = w.objs['st'][it.tag].get(key)
                    if s is not None:
                        out += monitors.subscriber_grammar(s)
        if 'nostate' in self.monitors:
            out += self.check_nostate(w)
        if 'cancel' in self.monitors:
            out += self.check_cancel(w)
        if 'credit' in self.monitors:
            out += monitors.credit(w.log, 'c0') + monitors.credit(w.log, 's0')
        out += self.check_loop_errors(w)
        return out

    def check_loop_errors(self, w):
        return []

    def expected_down(self, it):
        return [pl(it.pay('d', i)) for i in range(it.down)]

    def expected_up(self, it):
        return [pl(it.pay('u', i)) for i in range(max(it.up, 0))]

    def check_delivery(self, w):
        for i in self.inters:
            i.ctx = (self.fs, self.flavour, self.shape_rotation())
        out = []
        calls = {'c0': [], 's0': []}
        for ev in w.log:
            if ev[0] == 'api' and ev[2] == 'handler' and ev[3] in ('request_response', 'request_stream', 'request_channel',
                                                                   'request_fire_and_forget', 'on_metadata_push'):
                calls[ev[1]].append((ev[3], ev[4]))
        hname = {'rr': 'request_response', 'stream': 'request_stream', 'channel': 'request_channel',
                 'fnf': 'request_fire_and_forget', 'push': 'on_metadata_push'}
        expected_calls = {'c0': [], 's0': []}
        for it in self.inters:
            st = w.objs['st'][it.tag]
            resp = 's0' if it.init == 'c' else 'c0'
            cfg = '%s/%s' % (it.kind, self.flavour + ('+frag' if self.fs else ''))
            if it.kind == 'push':
                want = (b'', b(it.pay('q', 1).metadata))
            else:
                want = pl(it.pay('q', 0))
            expected_calls[resp].append((hname[it.kind], want))
            got = [c for c in calls[resp] if c == (hname[it.kind], want)]
            if it.cancel_after == -1 and it.kind == 'stream' and len(got) == 0:
                expected_calls[resp].pop()  # cancelled inside on_subscribe: the request need not be sent at all
            elif len(got) != 1:
                out.append(('C01.request-delivered-once', 'C01.request-delivered-once | %s | seen=%d' % (cfg, len(got)),
                            'request %s of %s reached the peer handler %d times; handler calls: %s' % (
                                it.tag, it.kind, len(got), _short(calls[resp]))))
            if it.kind == 'rr' and it.cancel_after is None:
                f = st.get('fut')
                want_r = pl(it.pay('r', 0))
                if f is None or f['state'] != 'result' or f['value'] != want_r:
                    out.append(('C01.response-correlated', 'C01.response-correlated | %s | %s' % (cfg, f['state'] if f else 'none'),
                                'request %s: awaitable state %s value %s, expected %s' % (
                                    it.tag, f and f['state'], _short(f and f['value']), _short(want_r))))
            if it.kind in ('stream', 'channel') and it.cancel_after is None:
                sub = st['sub']
                got_e = [e for e in sub.elements() if e != (b'', b'')]
                if got_e != self.expected_down(it):
                    out.append(('C01.elements-in-order', 'C01.elements-in-order | %s | down | %s' % (cfg, _diffkind(got_e, self.expected_down(it))),
                                'interaction %s: requester subscriber got %s expected %s' % (it.tag, _short(got_e), _short(self.expected_down(it)))))
            if it.kind == 'channel' and it.cancel_after is None:
                rsub = st.get('rsub')
                got_e = [e for e in (rsub.elements() if rsub else []) if e != (b'', b'')]
                if it.resp_cancel is not None:
                    # the responder stopped listening: it holds a prefix of what the requester had to send (nothing after its cancel)
                    if got_e != self.expected_up(it)[:len(got_e)] or (isinstance(it.resp_cancel, int) and len(got_e) > it.resp_cancel):
                        out.append(('C01.elements-in-order', 'C01.elements-in-order | %s | up | after-responder-cancel' % cfg,
                                    'interaction %s: responder subscriber (cancelled its inbound side) got %s' % (it.tag, _short(got_e))))
                elif got_e != self.expected_up(it):
                    out.append(('C01.elements-in-order', 'C01.elements-in-order | %s | up | %s' % (cfg, _diffkind(got_e, self.expected_up(it))),
                                'interaction %s: responder subscriber got %s expected %s' % (it.tag, _short(got_e), _short(self.expected_up(it)))))
        for side in ('c0', 's0'):
            extra = list(calls[side])
            for c in expected_calls[side]:
                if c in extra:
                    extra.remove(c)
            if extra:
                out.append(('C01.no-spurious-delivery', 'C01.no-spurious-delivery | %s | %s' % (extra[0][0], self.flavour + ('+frag' if self.fs else '')),
                            'handler on %s received unexpected calls %s' % (side, _short(extra))))
        return out

    def check_cancel(self, w):
        out = []
        log = w.log
        for it in self.inters:
            st = w.objs['st'][it.tag]
            cl = st.get('cancel_log')
            if it.cancel_after is None or cl is None or not st.get('pending_at_cancel'):
                continue
            req_ep, resp_ep = ('c0', 's0') if it.init == 'c' else ('s0', 'c0')
            cfg = '%s/%s' % (it.kind, it.pub if it.kind != 'rr' else 'future')
            head = ('%sq0:' % it.tag).encode()
            sid = None
            for ev in log:
                if ev[0] == 'tx' and ev[1] == req_ep and ev[2].type in R.REQUEST_TYPES and (ev[2].data or b'').startswith(head):
                    sid = ev[2].sid
                    break
            if sid is None:
                # the request itself never reached the wire before the cancel: nothing to cancel remotely
                n_c = 0
                continue
            cancels = [i for i, ev in enumerate(log) if ev[0] == 'tx' and ev[1] == req_ep and ev[2].type == R.CANCEL and ev[2].sid == sid]
            if len(cancels) != 1:
                out.append(('C09.exactly-one-cancel', 'C09.exactly-one-cancel | %s | n=%d' % (cfg, len(cancels)),
                            'cancel of pending %s on stream %d produced %d CANCEL frames' % (it.kind, sid, len(cancels))))
            if it.kind == 'rr':
                f = st['fut']
                if f['state'] != 'cancelled':
                    out.append(('C09.nothing-after-cancel', 'C09.nothing-after-cancel | %s | future-%s' % (cfg, f['state']),
                                'cancelled awaitable ended as %s' % f['state']))
            else:
                sub = st['sub']
                late = sub.signals[sub.after_cancel:]
                if late:
                    out.append(('C09.nothing-after-cancel', 'C09.nothing-after-cancel | %s | %s' % (cfg, late[0][0]),
                                'subscriber received %s after cancel() returned' % (late,)))
            # ---- peer side -------------------------------------------------------------------------------------
            rxi = next((i for i, ev in enumerate(log) if ev[0] == 'rx' and ev[1] == resp_ep and ev[2].type == R.CANCEL and ev[2].sid == sid), None)
            if rxi is None:
                if cancels:
                    out.append(('C09.cancel-reaches-peer', 'C09.cancel-reaches-peer | %s' % cfg, 'CANCEL was sent but never delivered'))
                continue
            # frames are handled one at a time by the receiver task: while a handler coroutine is suspended on that endpoint
            # (slow-handler scenarios) a CANCEL that has been fed is not processed before the handler is released
            changed = True
            while changed:
                changed = False
                q0 = next((i for i in range(rxi, len(log)) if log[i][0] == 'q'), len(log))
                for si, ev in enumerate(log[:q0]):
                    if ev[0] == 'api' and ev[1] == resp_ep and ev[2] == 'handler' and ev[3] == 'suspended':
                        ri = next((i for i in range(si, len(log)) if log[i][0] == 'act' and log[i][1] == 'rel' + ev[4] and log[i][2] == 'release'), len(log))
                        if ri > rxi:
                            rxi = ri
                            changed = True
            qi = next((i for i in range(rxi, len(log)) if log[i][0] == 'q'), len(log))
            pname = 'pub' + it.tag + 'd'
            finished_before = False
            for ev in log[:qi]:
                if ev[0] == 'api' and ev[1] == resp_ep and ev[2] == pname:
                    if ev[3] in ('emit-complete', 'emit-error', 'completed') or (ev[3] == 'emit' and ev[4][1]):
                        finished_before = True
                if it.kind == 'rr' and ev[0] == 'tx' and ev[1] == resp_ep and ev[2].sid == sid and ev[2].type in (R.PAYLOAD, R.ERROR):
                    finished_before = True
                if ev[0] == 'tx' and ev[1] == resp_ep and ev[2].sid == sid and (ev[2].type == R.ERROR or (ev[2].type == R.PAYLOAD and ev[2].complete and not ev[2].follows)):
                    finished_before = True  # the producer had already put its terminal frame on the wire
            if it.kind == 'rr':
                rf = st.get('rrfut')
                if rf is None:
                    finished_before = True  # immediate answers cannot be pending
                elif rf.done() and not rf.cancelled():
                    finished_before = finished_before or True
            if not finished_before:
                if it.kind == 'rr':
                    seen = st['rrfut'].cancelled()
                elif it.pub in ('rx3', 'rx4'):
                    seen = True  # a plain observable is buffered by the adapter; only "production stops" is observable
                elif it.pub == 'manual':
                    seen = st['pubd'].cancelled >= 1
                else:
                    seen = any(ev[0] == 'api' and ev[1] == resp_ep and ev[2] == pname and ev[3] == 'cancel' for ev in log)
                if not seen:
                    out.append(('C09.peer-producer-cancelled', 'C09.peer-producer-cancelled | %s' % cfg,
                                'CANCEL for stream %d was processed by the peer but its %s was never cancelled' % (
                                    sid, 'handler future' if it.kind == 'rr' else 'publisher')))
            ci = next((i for i, ev in enumerate(log) if ev[0] == 'api' and ev[1] == resp_ep and ev[2] == pname and ev[3] == 'cancel'), qi)
            for ev in log[min(ci, qi):]:
                if ev[0] == 'api' and ev[1] == resp_ep and ev[2] == pname and ev[3] == 'produce':
                    out.append(('C09.production-stops', 'C09.production-stops | %s | generator-still-pulled' % cfg,
                                'the peer kept pulling elements from its source (element #%s) after it had processed CANCEL' % (ev[4],)))
                    break
            for ev in log[qi:]:
                if ev[0] == 'tx' and ev[1] == resp_ep and ev[2].sid == sid and ev[2].type == R.PAYLOAD and ev[2].next:
                    out.append(('C09.production-stops', 'C09.production-stops | %s' % cfg,
                                'peer emitted %r after it had processed CANCEL' % (ev[2],)))
                    break
        return out

    def check_nostate(self, w):
        out = []
        for name, ep, sock in (('client', 'c0', w.objs['client']), ('server', 's0', w.objs['server'])):
            streams, partial = monitors.open_state(sock)
            for sid in streams:
                h = type(sock._stream_control._streams[sid]).__name__
                shape = stream_shape(w.log, ep, sid)
                out.append(('C10.no-open-streams', 'C10.no-open-streams | %s | %s' % (h, shape),
                            '%s retains stream %d (%s) at quiescence; terminal events seen on it: %s' % (name, sid, h, shape)))
            for sid in partial:
                out.append(('C10.no-partial-frames', 'C10.no-partial-frames | %s' % stream_shape(w.log, ep, sid),
                            '%s retains a partially reassembled frame for stream %d' % (name, sid)))
            # "the stream's id can be used again": the test the engine applies to an incoming request with that id
            used = sorted({ev[2].sid for ev in w.log if ev[0] == 'tx' and ev[2].sid != 0})
            for sid in used:
                if sid in streams:
                    continue
                try:
                    sock._stream_control.assert_stream_id_available(sid)
                except Exception as e:
                    out.append(('C10.id-usable-again', 'C10.id-usable-again | %s | %s' % (name, type(e).__name__),
                                '%s refuses stream id %d after its interaction terminated: %r' % (name, sid, e)))
        return out

    def ending_tag(self):
        return ','.join(sorted({'%s:%s%s' % (i.kind, i.ending, ('+cancel' if i.cancel_after is not None else '')) for i in self.inters}))

    def nontrivial(self, w):
        """>=2 frames simultaneously pending in a link at some point (frames of >=2 streams, or >=2 frames of one)."""
        return len(self.inters) >= 2 or self.fs is not None or any(i.cancel_after is not None or i.ending == "error" for i in self.inters)

    def outcome(self, w):
        return hash(tuple((ev[1], ev[2].type, ev[2].sid, ev[2].flags) for ev in w.log if ev[0] == 'tx'))


def _auto_request(sub):
    """credit 'one': grant one more element from inside on_next (synchronously)."""
    orig = sub.on_next

    def on_next(value, is_complete=False):
        orig(value, is_complete)
        if not is_complete and sub.subscription is not None and sub.after_cancel is None:
            sub.subscription.request(1)

    sub.on_next = on_next


def _short(x, n=300):
    s = repr(x)
    return s if len(s) <= n else s[:n] + '...'


def _diffkind(got, exp):
    if len(got) < len(exp) and got == exp[:len(got)]:
        return 'missing'
    if len(got) > len(exp) and got[:len(exp)] == exp:
        return 'extra'
    if sorted(got) == sorted(exp):
        return 'reordered'
    if len(got) == len(exp):
        return 'corrupted'
    return 'mismatch'


def stream_shape(log, ep, sid):
    """Terminal-ish events on one stream from one endpoint's point of view, in order of first occurrence."""
    seen = []
    for ev in log:
        if ev[0] not in ('tx', 'rx') or ev[1] != ep:
            continue
        f = ev[2]
        if f.sid != sid:
            continue
        tag = None
        if f.type == R.ERROR:
            tag = ev[0] + '-ERROR'
        elif f.type == R.CANCEL:
            tag = ev[0] + '-CANCEL'
        elif f.type in (R.PAYLOAD, R.REQUEST_CHANNEL) and f.complete and not f.follows:
            tag = ev[0] + '-COMPLETE'
        elif f.type in R.REQUEST_TYPES:
            tag = ev[0] + '-' + f.name
        if tag and tag not in seen:
            seen.append(tag)
    return '>'.join(seen) or 'none'
