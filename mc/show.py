"""Debug helper: python -m mc.show <props-module> <scenario-name> '<params-json>' [choice-index-list-json]
Runs one execution and prints the full log."""
import json
import logging
import sys

from mc.explore import execute, fmt_log

logging.disable(logging.CRITICAL)


def main():
    import importlib
    mod = importlib.import_module('mc.props.' + sys.argv[1])
    scn = mod.scenario_from(sys.argv[2], json.loads(sys.argv[3]))
    prefix = json.loads(sys.argv[4]) if len(sys.argv) > 4 else []
    x, w = execute(scn, prefix, keep_world=True)
    for line in fmt_log(w.log, 10000):
        print(line)
    print('choices:')
    for k, c in enumerate(x.spelled):
        print('  %d: %s   (of %d)' % (k, c, len(x.points[k])))
    print('violations:', x.violations)
    print('exc_log:', w.loop.read_exc_log())
    w.teardown()


main()
