"""One real endpoint against a scripted peer (the explorer itself). Frames are injected through the simulated link so the
endpoint runs its real transport/parser path; its output is read from the reference-decoded wire log."""
import asyncio

from mc import refwire as R
from mc.app import RecHandler
from mc.runner import arm_watchdog, disarm_watchdog, Watchdog
from mc.vloop import Livelock
from mc.world import World, start_client, start_server, inject, inject_bytes


class Solo:
    def __init__(self, role='client', flavour='tcp', beh=None, handler_factory=None, setup=True, conn_kw=None,
                 world_kw=None, **kw):
        self.w = World(**(world_kw or {}))
        self.role = role
        self.conn = self.w.new_conn(flavour, **(conn_kw or {}))
        if role == 'client':
            self.ep = self.conn.cname
            self.inn, self.out = self.conn.s2c, self.conn.c2s
            self.sock = start_client(self.w, self.conn, beh, handler_factory=handler_factory, **kw)
            self.first_sid = 1
            self.peer_first_sid = 2
        else:
            self.ep = self.conn.sname
            self.inn, self.out = self.conn.c2s, self.conn.s2c
            self.sock = start_server(self.w, self.conn, beh, handler_factory=handler_factory, **kw)
            self.first_sid = 2
            self.peer_first_sid = 1
        self.w.run_q()
        if role == 'server' and setup:
            self.peer(R.enc_setup() if setup is True else setup)
        self.handler = self.sock._handler
        self.mark = len(self.w.log)

    @property
    def log(self):
        return self.w.log

    # -- peer actions ------------------------------------------------------------------------------------------
    def peer(self, raw, mode='Q'):
        """The scripted peer sends one frame; it is delivered at once (run mode decides whether the loop runs)."""
        inject(self.w, self.inn, raw)
        self.deliver(mode)

    def peer_bytes(self, data, mode='Q'):
        inject_bytes(self.w, self.inn, data)
        self.deliver(mode)

    def deliver(self, mode='Q'):
        d = self.inn
        if self.conn.stream:
            if d.pending and d.sink_alive():
                d.deliver_bytes(len(d.pending))
            else:
                d.pending.clear()
        else:
            while d.msgs:
                if d.sink_alive():
                    d.deliver_message()
                else:
                    d.msgs.clear()
        self.settle(mode)

    def settle(self, mode='Q'):
        if mode == 'Q':
            self.w.run_q()
        elif mode == '1':
            self.w.loop.step()
        self.out.pending.clear()
        self.out.msgs.clear()

    def eof(self, mode='Q'):
        self.inn.deliver_eof()
        self.settle(mode)

    def rst(self, mode='Q'):
        self.inn.deliver_error()
        self.settle(mode)

    def write_fails(self):
        self.out.write_error = True

    def close(self, mode='Q'):
        t = self.w.loop.create_task(self.sock.close())
        self.settle(mode)
        return t

    def advance(self, seconds, fire=True):
        """Advance the virtual clock, firing every timer that becomes due on the way, in order."""
        loop = self.w.loop
        target = loop.time() + seconds
        while True:
            t = loop.next_timer()
            if t is None or t > target + 1e-12:
                break
            loop.advance_to(t)
            self.w.logev(('t', round(loop.time(), 6)))
            self.w.run_q()
            self.out.pending.clear()
            self.out.msgs.clear()
        loop.advance_to(target)
        self.w.logev(('t', round(loop.time(), 6)))
        self.w.run_q()

    # -- observation -------------------------------------------------------------------------------------------
    def sent(self, since=0):
        return [ev[2] for ev in self.w.log[since:] if ev[0] in ('tx', 'txc') and ev[1] == self.ep]

    def sent_on(self, sid, since=0):
        return [f for f in self.sent(since) if f.sid == sid]

    def api(self, obj=None, since=0):
        return [ev for ev in self.w.log[since:] if ev[0] == 'api' and (obj is None or ev[2] == obj)]

    def tasks_alive(self):
        s = self.sock
        return {'receiver': s._receiver_task is not None and not s._receiver_task.done(),
                'sender': s._sender_task is not None and not s._sender_task.done()}

    def teardown(self):
        self.w.teardown()


def guarded(fn, seconds=20):
    """Run fn under the watchdog; returns (result, error-kind or None)."""
    try:
        arm_watchdog(seconds)
        return fn(), None
    except Livelock as e:
        return None, 'livelock: %s' % e
    except Watchdog as e:
        return None, 'watchdog: %s' % e
    finally:
        disarm_watchdog()
