"""Virtual asyncio event loop: stock BaseEventLoop semantics, virtual clock, no selector, stepped by hand.

The ready queue keeps asyncio's own FIFO order (the library may rely on it); the explorer owns *when* the loop runs
and what the environment does between iterations, never the order of ready callbacks.
"""
import asyncio
import datetime as _dt
import gc
import sys
from asyncio import events, futures

from mc import runner as _runner

_EPOCH = _dt.datetime(2020, 1, 1)

_TEARDOWNS = 0
CURRENT = None  # the VLoop of the execution in progress (one per process at a time)


class Livelock(Exception):
    pass


class _NoSelector:
    def select(self, timeout=None):
        return []

    def close(self):
        pass


class RecFuture(asyncio.Future):
    """Pure-python future that records every completion attempt (for 'resolved exactly once')."""

    def __init__(self, *a, **kw):
        super().__init__(*a, **kw)
        self.attempts = []  # (kind, accepted)

    def set_result(self, result):
        try:
            super().set_result(result)
        except BaseException:
            self.attempts.append(('result', False))
            raise
        self.attempts.append(('result', True))

    def set_exception(self, exception):
        try:
            super().set_exception(exception)
        except BaseException:
            self.attempts.append(('exception', False))
            raise
        self.attempts.append(('exception', True))

    def cancel(self, msg=None):
        ok = super().cancel(msg)
        self.attempts.append(('cancel', ok))
        return ok


class VLoop(asyncio.BaseEventLoop):
    def __init__(self):
        super().__init__()
        self._vtime = 0.0
        self._selector = _NoSelector()
        self._clock_resolution = 1e-9
        self.exc_log = []
        self.iterations = 0
        self.set_exception_handler(self._on_exception)

    # -- clock -------------------------------------------------------------------------------------------------
    def time(self):
        return self._vtime

    def now_datetime(self):
        return _EPOCH + _dt.timedelta(seconds=self._vtime)

    # -- BaseEventLoop plumbing --------------------------------------------------------------------------------
    def _process_events(self, event_list):
        pass

    def _write_to_self(self):
        pass

    def create_future(self):
        return RecFuture(loop=self)

    def _on_exception(self, loop, context):
        exc = context.get('exception')
        self.exc_log.append((context.get('message', ''), type(exc).__name__ if exc is not None else None,
                             str(exc) if exc is not None else None))

    # -- stepping ------------------------------------------------------------------------------------------------
    def has_ready(self):
        return bool(self._ready)

    def step(self):
        """One stock asyncio iteration (due timers -> ready; run exactly what was ready at the start)."""
        self.iterations += 1
        if _runner.WATCHDOG_FIRED:
            raise _runner.Watchdog('watchdog fired (seen by the loop)')
        self._run_once()

    def quiesce(self, cap=20000):
        n = 0
        while self._ready or self._due():
            self.step()
            n += 1
            if n > cap:
                raise Livelock('loop did not go quiescent within %d iterations' % cap)
        return n

    def _due(self):
        t = self.next_timer()
        return t is not None and t < self._vtime + self._clock_resolution

    def next_timer(self):
        best = None
        for h in self._scheduled:
            if not h._cancelled and (best is None or h._when < best):
                best = h._when
        return best

    def advance_to(self, when):
        if when > self._vtime:
            self._vtime = when

    def advance(self, delta):
        self._vtime += delta

    def tick(self):
        """Move the clock to the next live timer. Returns False if there is none."""
        t = self.next_timer()
        if t is None:
            return False
        self.advance_to(t)
        return True

    # -- life cycle ----------------------------------------------------------------------------------------------
    def install(self):
        global CURRENT
        CURRENT = self
        asyncio.set_event_loop(self)
        events._set_running_loop(self)

    def teardown(self):
        """Cancel everything still alive so nothing leaks into the next execution."""
        global CURRENT
        old_hook = sys.unraisablehook
        sys.unraisablehook = lambda *a, **k: None
        fired, _runner.WATCHDOG_FIRED = _runner.WATCHDOG_FIRED, False
        try:
            for _ in range(5):
                tasks = [t for t in asyncio.all_tasks(self) if not t.done()]
                if not tasks:
                    break
                for t in tasks:
                    t.cancel()
                try:
                    self.quiesce(cap=2000)
                except Livelock:
                    break
            for h in list(self._scheduled):
                h.cancel()
            self._scheduled.clear()
            self._ready.clear()
            try:
                for ag in list(self._asyncgens):
                    try:
                        ag.aclose().close()
                    except BaseException:
                        pass
                self._asyncgens.clear()
            except BaseException:
                pass
        finally:
            events._set_running_loop(None)
            asyncio.set_event_loop(None)
            CURRENT = None
            try:
                self._closed = True
            except BaseException:
                pass
            sys.unraisablehook = old_hook
            _runner.WATCHDOG_FIRED = fired
            # finished worlds are cyclic garbage; without a periodic full collection they pile up in the oldest
            # generation and every later execution pays for them (all_tasks() weak set, gc scans)
            global _TEARDOWNS
            _TEARDOWNS += 1
            if _TEARDOWNS % 300 == 0:
                gc.collect()

    def read_exc_log(self):
        gc.collect(1)
        return list(self.exc_log)


class VDateTime(_dt.datetime):
    """Stand-in for the module-level name `datetime` in rsocket.lease / rsocket.rsocket_client."""

    @classmethod
    def now(cls, tz=None):
        if CURRENT is None:
            return _EPOCH
        return CURRENT.now_datetime()


def install_clock_seams():
    import rsocket.lease
    import rsocket.rsocket_client
    rsocket.lease.datetime = VDateTime
    rsocket.rsocket_client.datetime = VDateTime
