"""Closed world: real RSocketClient / RSocketServer over real transport classes on a simulated link, driven on the
virtual loop. Every environment decision is an explicit event chosen by the explorer."""
import asyncio
from collections import deque

from mc import refwire
from mc.vloop import VLoop, install_clock_seams, Livelock


class ReplayDivergence(Exception):
    pass


class StepBudget(Exception):
    pass


# ------------------------------------------------------------------------------------------------------------------
# link
# ------------------------------------------------------------------------------------------------------------------
class Dir:
    """One direction of one connection."""

    def __init__(self, world, conn, name, src, dst):
        self.world = world
        self.conn = conn
        self.name = name  # 'c2s' / 's2c'
        self.src = src  # endpoint tag writing into it, e.g. 'c0'
        self.dst = dst
        self.pending = bytearray()  # tcp: written, not yet delivered
        self.msgs = deque()  # msg: written, not yet delivered
        self._wscan = bytearray()  # tcp: writer-side bytes of the frame being written
        self._rscan = bytearray()  # tcp: reader-side bytes of the frame being delivered
        self.partial = 0  # bytes of the current frame already delivered (tcp)
        self.fin = False  # the writer closed: EOF follows the pending bytes
        self.dead = False  # nothing is delivered any more (cut / receiver gone)
        self.eof_done = False
        self.block_armed = False
        self.always_block = False  # every drain waits for an explicit release
        self.block = None
        self.write_error = False
        self.sink = None  # StreamReader or FakeWS of dst
        self.tx_count = 0
        self.rx_count = 0

    # -- writer side ---------------------------------------------------------------------------------------------
    def written(self, data, after_close=False):
        w = self.world
        self._wscan.extend(data)
        end = 0
        for b, e in refwire.split_prefixed(self._wscan):
            f = refwire.decode(self._wscan[b + 3:e])
            self.tx_count += 1
            w.logev(('txc' if after_close else 'tx', self.src, f))
            end = e
        if end:
            del self._wscan[:end]
        if not after_close and not self.dead:
            self.pending.extend(data)

    def message_written(self, data, after_close=False):
        f = refwire.decode(data)
        self.tx_count += 1
        self.world.logev(('txc' if after_close else 'tx', self.src, f))
        if not after_close and not self.dead:
            self.msgs.append(bytes(data))

    # -- delivery ------------------------------------------------------------------------------------------------
    def has_pending(self):
        if self.dead:
            return False
        return bool(self.pending) or bool(self.msgs)

    def next_frame_len(self):
        """tcp: number of bytes up to the end of the frame at the head of pending (None if incomplete)."""
        buf = bytes(self._rscan) + bytes(self.pending[:3])
        if len(buf) < 3:
            return None
        ln = int.from_bytes(buf[:3], 'big') + 3
        need = ln - len(self._rscan)
        if need > len(self.pending):
            return None
        return need

    def deliver_bytes(self, n):
        chunk = bytes(self.pending[:n])
        del self.pending[:n]
        self._rscan.extend(chunk)
        end = 0
        frames = []
        for b, e in refwire.split_prefixed(self._rscan):
            frames.append(refwire.decode(self._rscan[b + 3:e]))
            end = e
        if end:
            del self._rscan[:end]
        if self.sink_alive():
            self.sink.feed_data(chunk)
            for f in frames:
                self.rx_count += 1
                self.world.logev(('rx', self.dst, f))

    def deliver_message(self):
        m = self.msgs.popleft()
        if self.sink_alive():
            self.rx_count += 1
            self.world.logev(('rx', self.dst, refwire.decode(m)))
            self.sink.feed_message(m)

    def sink_alive(self):
        s = self.sink
        if s is None or self.dead:
            return False
        if isinstance(s, asyncio.StreamReader):
            return not s.at_eof() and s.exception() is None and not s._eof
        return not s.in_closed

    def deliver_eof(self):
        self.eof_done = True
        s = self.sink
        if s is None:
            return
        self.world.logev(('eof', self.dst))
        if isinstance(s, asyncio.StreamReader):
            if not s._eof and s.exception() is None:
                s.feed_eof()
        else:
            s.feed_eof()

    def deliver_error(self):
        self.dead = True
        self.eof_done = True
        s = self.sink
        self.world.logev(('rst', self.dst))
        if isinstance(s, asyncio.StreamReader):
            if s.exception() is None and not s._eof:
                s.set_exception(ConnectionResetError('simulated reset'))
        elif s is not None:
            s.feed_error(ConnectionResetError('simulated reset'))

    # -- writer blocking -----------------------------------------------------------------------------------------
    async def wait_writable(self):
        if self.write_error:
            raise ConnectionResetError('simulated write failure')
        if self.block_armed or self.always_block:
            self.block_armed = False
            self.block = self.world.loop.create_future()
            self.world.logev(('blocked', self.src))
            try:
                await self.block
            finally:
                self.block = None
        if self.write_error:
            raise ConnectionResetError('simulated write failure')


class FakeWriter:
    """Stands in for asyncio.StreamWriter."""

    def __init__(self, world, ep, out_dir, in_dir):
        self.world = world
        self.ep = ep
        self.out = out_dir
        self.inn = in_dir
        self.closed = False
        self.close_calls = 0

    def write(self, data):
        self.out.written(bytes(data), after_close=self.closed)

    async def drain(self):
        await self.out.wait_writable()

    def close(self):
        self.close_calls += 1
        if self.closed:
            return
        self.closed = True
        self.world.logev(('close', self.ep))
        self.out.fin = True
        inn = self.inn
        inn.dead = True
        r = inn.sink
        if isinstance(r, asyncio.StreamReader) and not r._eof and r.exception() is None:
            self.world.loop.call_soon(lambda: (r.feed_eof() if (not r._eof and r.exception() is None) else None))

    def is_closing(self):
        return self.closed

    async def wait_closed(self):
        return

    def get_extra_info(self, name, default=None):
        return default


class _Msg:
    __slots__ = ('type', 'data')

    def __init__(self, data):
        import aiohttp
        self.type = aiohttp.WSMsgType.BINARY
        self.data = data


class FakeWS:
    """Stands in for an aiohttp websocket object (client response or server WebSocketResponse)."""

    def __init__(self, world, ep, out_dir, in_dir):
        self.world = world
        self.ep = ep
        self.out = out_dir
        self.inn = in_dir
        self.closed = False
        self.in_closed = False
        self._inq = deque()
        self._waiter = None
        self._eof = False
        self._err = None
        self.close_calls = 0

    async def send_bytes(self, data):
        if self.out.write_error:
            raise ConnectionResetError('simulated write failure')
        self.out.message_written(bytes(data), after_close=self.closed)
        await self.out.wait_writable()

    def feed_message(self, m):
        self._inq.append(_Msg(m))
        self._wake()

    def feed_eof(self):
        self._eof = True
        self.in_closed = True
        self._wake()

    def feed_error(self, e):
        self._err = e
        self.in_closed = True
        self._wake()

    def _wake(self):
        if self._waiter is not None and not self._waiter.done():
            self._waiter.set_result(None)

    def __aiter__(self):
        return self

    async def __anext__(self):
        while True:
            if self._inq:
                return self._inq.popleft()
            if self._err is not None:
                e, self._err = self._err, None
                self._eof = True
                raise e
            if self._eof:
                raise StopAsyncIteration
            self._waiter = self.world.loop.create_future()
            try:
                await self._waiter
            finally:
                self._waiter = None

    async def close(self):
        self.close_calls += 1
        if self.closed:
            return
        self.closed = True
        self.world.logev(('close', self.ep))
        self.out.fin = True
        self.inn.dead = True
        self.feed_eof()


class Conn:
    def __init__(self, world, idx, flavour, read_buffer_size=1 << 20, connect_gate=False):
        self.world = world
        self.idx = idx
        self.flavour = flavour
        c, s = 'c%d' % idx, 's%d' % idx
        self.cname, self.sname = c, s
        self.c2s = Dir(world, self, 'c2s%d' % idx, c, s)
        self.s2c = Dir(world, self, 's2c%d' % idx, s, c)
        self.gate = None
        self.gate_open = not connect_gate
        self.connect_started = False
        loop = world.loop
        from mc import links
        self.stream = links.is_stream(flavour)
        if flavour not in ('tcp', 'msg'):
            links.build(self, world, flavour)
            for tr in (self.ct, self.st):
                if tr is not None:
                    self._cap_queue(tr)
        elif flavour == 'tcp':
            from rsocket.transports.tcp import TransportTCP
            rc, rs = asyncio.StreamReader(limit=1 << 26, loop=loop), asyncio.StreamReader(limit=1 << 26, loop=loop)
            self.c2s.sink, self.s2c.sink = rs, rc
            self.cw = FakeWriter(world, c, self.c2s, self.s2c)
            self.sw = FakeWriter(world, s, self.s2c, self.c2s)
            conn = self

            class GatedTCP(TransportTCP):
                async def connect(self_inner):
                    conn.connect_started = True
                    world.logev(('connect', c))
                    if not conn.gate_open:
                        conn.gate = loop.create_future()
                        await conn.gate
                    await super().connect()

            self.ct = GatedTCP(rc, self.cw, read_buffer_size=read_buffer_size)
            self.st = TransportTCP(rs, self.sw, read_buffer_size=read_buffer_size)
            self.server_pump = None
        else:
            from rsocket.transports.aiohttp_websocket import TransportAioHttpClient, TransportAioHttpWebsocket
            self.cw = FakeWS(world, c, self.c2s, self.s2c)
            self.sw = FakeWS(world, s, self.s2c, self.c2s)
            self.c2s.sink, self.s2c.sink = self.sw, self.cw
            conn = self

            class GatedWS(TransportAioHttpClient):
                async def connect(self_inner):
                    conn.connect_started = True
                    world.logev(('connect', c))
                    if not conn.gate_open:
                        conn.gate = loop.create_future()
                        await conn.gate
                    await super().connect()

            self.ct = GatedWS(None, self.cw)
            self.st = TransportAioHttpWebsocket(self.sw)
            for tr in (self.ct, self.st):
                self._cap_queue(tr)
            self.server_pump = loop.create_task(self.st.handle_incoming_ws_messages())

    QUEUE_CAP = 5000

    def _cap_queue(self, transport):
        """A decoder that never terminates must be reported, not exhaust memory: cap the incoming frame queue."""
        q = transport._incoming_frame_queue
        orig = q.put_nowait
        world = self.world
        count = [0]

        def put_nowait(item):
            count[0] += 1
            if count[0] > self.QUEUE_CAP:
                if 'incoming-queue-cap' not in world.errors:
                    world.errors.append('incoming-queue-cap')
                raise Livelock('message pump produced more than %d frames' % self.QUEUE_CAP)
            return orig(item)

        q.put_nowait = put_nowait

    def dirs(self):
        return (self.c2s, self.s2c)


# ------------------------------------------------------------------------------------------------------------------
# application actors
# ------------------------------------------------------------------------------------------------------------------
class Step:
    __slots__ = ('label', 'fn', 'guard')

    def __init__(self, label, fn, guard=None):
        self.label = label
        self.fn = fn
        self.guard = guard


class Actor:
    def __init__(self, name, steps):
        self.name = name
        self.steps = list(steps)
        self.pc = 0

    def enabled(self, w):
        if self.pc >= len(self.steps):
            return False
        g = self.steps[self.pc].guard
        return g is None or bool(g(w))


# ------------------------------------------------------------------------------------------------------------------
# world
# ------------------------------------------------------------------------------------------------------------------
class World:
    CHUNK_POINTS = (1, 2, 3, 9, -1)

    def __init__(self, alts=(), modes=('Q',), fault_budget=0, horizon=None, step_cap=400, policy='deliver-first'):
        install_clock_seams()
        self.loop = VLoop()
        self.loop.install()
        self.log = []
        self.conns = []
        self.actors = []
        self.alts = set(alts)  # subset of {'all', 'chunk', 'blk', 'gate-late'}
        self.modes = tuple(modes)
        self.fault_budget = fault_budget
        self.fault_kinds = ('eof', 'rst')
        self.cut_points = 'boundaries'  # or 'all': cut after every possible number of further bytes
        self.fault_conns = None  # restrict faults to these connection indices
        self.closers = {}  # name -> callable starting an explicit close() (a fault-budget alternative)
        self.faults_used = 0
        self.horizon = horizon
        self.step_cap = step_cap
        self.steps = 0
        self.objs = {}  # named application objects of the scenario
        self.errors = []  # harness-level observations (app callback exceptions etc.)
        self.extra_events = []  # callables returning [(label, fn)] contributed by scenarios
        self.closed = False
        self.ended = False
        self.policy = policy  # 'deliver-first' (default) | 'app-first-batch': application acts first, reads take all pending bytes

    # -- log -----------------------------------------------------------------------------------------------------
    def logev(self, ev):
        self.log.append(ev)

    def api(self, ep, obj, signal, detail=None):
        self.log.append(('api', ep, obj, signal, detail))

    def fingerprint(self):
        parts = [len(self.log), tuple(a.pc for a in self.actors)]
        for c in self.conns:
            for d in c.dirs():
                parts.append((len(d.pending), len(d.msgs), d.tx_count, d.rx_count, d.fin, d.dead))
        tail = self.log[-1] if self.log else None
        return (tuple(parts), repr(tail), len(self.loop._ready), round(self.loop.time(), 6))

    # -- construction --------------------------------------------------------------------------------------------
    def new_conn(self, flavour='tcp', **kw):
        c = Conn(self, len(self.conns), flavour, **kw)
        self.conns.append(c)
        return c

    def add_actor(self, name, steps):
        a = Actor(name, steps)
        self.actors.append(a)
        return a

    def run_q(self):
        self.loop.quiesce()
        self.logev(('q',))

    # -- event enumeration ---------------------------------------------------------------------------------------
    def events(self):
        """Enabled environment events in canonical order; the first one is the default."""
        ev = []
        dl = []
        batch = self.policy == 'app-first-batch'
        for c in self.conns:
            for d in c.dirs():
                if d.dead or not d.sink_alive():
                    continue
                if c.stream:
                    n = d.next_frame_len()
                    if batch and d.pending:
                        dl.append((('dlv', d.name, 'A'), lambda d=d: d.deliver_bytes(len(d.pending))))
                        if n is not None and len(d.pending) > n:
                            dl.append((('dlv', d.name, 'W'), lambda d=d, n=n: d.deliver_bytes(n)))
                    elif n is not None:
                        dl.append((('dlv', d.name, 'W'), lambda d=d, n=n: d.deliver_bytes(n)))
                    elif d.pending:
                        dl.append((('dlv', d.name, 'rest'), lambda d=d: d.deliver_bytes(len(d.pending))))
                elif d.msgs:
                    dl.append((('dlv', d.name, 'W'), lambda d=d: d.deliver_message()))
        ap = []
        for a in self.actors:
            if a.enabled(self):
                st = a.steps[a.pc]
                ap.append((('app', a.name, st.label), lambda a=a, st=st: self._do_step(a, st)))
        ev = (ap + dl) if batch else (dl + ap)
        for c in self.conns:
            for d in c.dirs():
                if d.block is not None and not d.block.done():
                    ev.append((('rel', d.name), lambda d=d: d.block.set_result(None)))
        for c in self.conns:
            if c.gate is not None and not c.gate.done():
                ev.append((('gate', c.cname), lambda c=c: self._open_gate(c)))
        for c in self.conns:
            for d in c.dirs():
                if d.fin and not d.eof_done and not d.has_pending() and not d.dead:
                    ev.append((('eof', d.name), lambda d=d: d.deliver_eof()))
        for f in self.extra_events:
            ev.extend(f(self))
        if self.horizon is not None and self.loop.next_timer() is not None and self.loop.next_timer() <= self.horizon:
            ev.append((('tick',), self._tick))
        # ---- alternatives that are never the default ----------------------------------------------------------
        alt = []
        if 'all' in self.alts or 'chunk' in self.alts:
            for c in self.conns:
                if not c.stream:
                    continue
                for d in c.dirs():
                    if d.dead or not d.sink_alive() or not d.pending:
                        continue
                    n = d.next_frame_len()
                    if 'all' in self.alts and not batch and n is not None and len(d.pending) > n:
                        alt.append((('dlv', d.name, 'A'), lambda d=d: d.deliver_bytes(len(d.pending))))
                    if 'chunk' in self.alts and n is not None and n > 1:
                        ks = set()
                        for k in self.CHUNK_POINTS:
                            k = n + k if k < 0 else k
                            if 0 < k < n:
                                ks.add(k)
                        for k in sorted(ks):
                            alt.append((('dlv', d.name, k), lambda d=d, k=k: d.deliver_bytes(k)))
        if 'blk' in self.alts:
            for c in self.conns:
                for d in c.dirs():
                    if not d.block_armed and d.block is None and not d.dead and not d.fin:
                        alt.append((('blk', d.name), lambda d=d: setattr(d, 'block_armed', True)))
        if self.faults_used < self.fault_budget:
            for c in self.conns:
                if self.fault_conns is not None and c.idx not in self.fault_conns:
                    continue
                for d in c.dirs():
                    if d.dead or d.eof_done or not d.sink_alive():
                        continue
                    if c.stream:
                        total = len(d.pending)
                        if self.cut_points == 'all':
                            ks = range(0, total + 1)
                        else:
                            n = d.next_frame_len() or 0
                            ks = sorted({k for k in (0, 1, 2, 3, 4, 9, n - 1, n, n + 1, n + 3, n + 9, total - 1, total) if 0 <= k <= total})
                    else:
                        ks = range(0, len(d.msgs) + 1)
                    for kind in self.fault_kinds:
                        for k in ks:
                            alt.append((('cut', d.name, kind, k), lambda d=d, kind=kind, k=k: self._cut(d, kind, k)))
            for name, fn in sorted(self.closers.items()):
                alt.append((('close', name), lambda fn=fn, name=name: self._closer(fn, name)))
        if not ev:
            if self.loop.has_ready():
                return []  # the caller lets the loop go quiescent first and asks again
            has_fault_alt = any(lab[0] in ('cut', 'close') for lab, _ in alt)
            if has_fault_alt and not self.ended:
                # nothing left to do by default, but a fault could still strike here: make that a choice point
                ev = [(('end',), self._end)]
                alt = [(lab, fn) for lab, fn in alt if lab[0] in ('cut', 'close')]
        if self.ended:
            return []
        return ev + alt if ev else []

    def _end(self):
        self.ended = True

    def _do_step(self, a, st):
        a.pc += 1
        self.logev(('act', a.name, st.label))
        st.fn(self)

    def _open_gate(self, c):
        c.gate_open = True
        c.gate.set_result(None)

    def _tick(self):
        self.loop.tick()
        self.logev(('t', round(self.loop.time(), 6)))

    def _closer(self, fn, name=None):
        self.faults_used += 1
        self.logev(('close-called', name))
        fn()

    def _cut(self, d, kind, k=0):
        """Connection loss on direction d after exactly k more bytes (tcp) / messages (msg) were delivered."""
        self.faults_used += 1
        if d.conn.stream:
            if k:
                d.deliver_bytes(k)
        else:
            for _ in range(k):
                d.deliver_message()
        d.pending.clear()
        d.msgs.clear()
        if kind == 'eof':
            d.deliver_eof()
            d.dead = True
        elif kind == 'rst':
            d.deliver_error()
        elif kind == 'mute':  # the direction silently swallows everything from now on (peer hung, no FIN/RST)
            d.dead = True
            d.eof_done = True
            self.logev(('mute', d.dst))
            self.logev(('mute', d.src))
        else:  # 'wr': the receiver of d sees a reset and its own writes fail from now on
            d.deliver_error()
            rev = d.conn.s2c if d is d.conn.c2s else d.conn.c2s
            rev.write_error = True
            rev.pending.clear()
            rev.msgs.clear()
            rev.dead = True
            if rev.block is not None and not rev.block.done():
                rev.block.set_result(None)

    def advance(self, seconds):
        """Advance the virtual clock firing every timer on the way (used after faults: keepalive periods etc.)."""
        loop = self.loop
        target = loop.time() + seconds
        while True:
            t = loop.next_timer()
            if t is None or t > target + 1e-12:
                break
            loop.advance_to(t)
            self.logev(('t', round(loop.time(), 6)))
            self.run_q()
        loop.advance_to(target)
        self.logev(('t', round(loop.time(), 6)))
        self.run_q()

    # -- execution under a chooser -------------------------------------------------------------------------------
    def options(self):
        evs = self.events()
        opts = []
        for m in self.modes:
            for label, fn in evs:
                opts.append((label + (m,) if m != 'Q' else label, fn, m))
        return opts

    def run(self, chooser, part=None):
        """Run to completion under the chooser (prefix, then defaults)."""
        self.run_q()
        while True:
            opts = self.options()
            if not opts:
                if self.loop.has_ready():
                    self.run_q()
                    continue
                break
            if part is not None:
                part.state(self.fingerprint())
                part.transitions += 1
            idx = chooser.choose([o[0] for o in opts])
            label, fn, mode = opts[idx]
            self.steps += 1
            if self.steps > self.step_cap:
                raise StepBudget('more than %d environment events' % self.step_cap)
            fn()
            if mode == 'Q':
                self.run_q()
            elif mode == '1':
                self.loop.step()
        self.run_q()

    def teardown(self):
        if not self.closed:
            self.closed = True
            self.loop.teardown()


class Chooser:
    def __init__(self, prefix=()):
        self.prefix = list(prefix)
        self.taken = []
        self.points = []  # labels offered at each point

    def choose(self, labels):
        i = len(self.taken)
        if i < len(self.prefix):
            want = self.prefix[i]
            if isinstance(want, (list, tuple)) and len(want) == 2 and isinstance(want[0], int):
                idx, lab = want
                if idx >= len(labels) or _norm(labels[idx]) != _norm(lab):
                    raise ReplayDivergence('choice %d: expected %r, offered %r' % (i, lab, labels))
            else:
                idx = want
                if idx >= len(labels):
                    raise ReplayDivergence('choice %d: index %d out of range (%d offered)' % (i, idx, len(labels)))
        else:
            idx = 0
        self.taken.append(idx)
        self.points.append(labels)
        return idx

    def deviations(self):
        return sum(1 for i in self.taken if i != 0)

    def spelled(self):
        return [[i, list(map(_plain, self.points[k][i]))] for k, i in enumerate(self.taken)]


def _plain(x):
    return x if isinstance(x, (int, str, float, bool, type(None))) else repr(x)


def _norm(label):
    return tuple(_plain(x) for x in label)


# ------------------------------------------------------------------------------------------------------------------
# endpoint construction helpers
# ------------------------------------------------------------------------------------------------------------------
def start_server(w, conn, beh=None, handler_factory=None, **kw):
    from rsocket.rsocket_server import RSocketServer
    from mc.app import RecHandler
    hf = handler_factory or (lambda: RecHandler(w, conn.sname, beh))
    if conn.flavour == 'chan':
        from mc import links
        server = links.start_channels_server(w, conn, hf, **kw)
        conn._cap_queue(conn.st)
    else:
        server = RSocketServer(conn.st, handler_factory=hf, **kw)
    conn.server = server
    return server


def start_client(w, conns, beh=None, handler_factory=None, connect=True, **kw):
    """conns: one Conn or a list (transport provider yields them in order)."""
    from rsocket.rsocket_client import RSocketClient
    from mc.app import RecHandler
    if not isinstance(conns, (list, tuple)):
        conns = [conns]

    async def provider():
        for c in conns:
            w.logev(('provide', c.cname))
            yield c.ct

    hf = handler_factory or (lambda: RecHandler(w, conns[0].cname, beh))
    client = RSocketClient(provider(), handler_factory=hf, **kw)
    w.client = client
    if connect:
        w.connect_task = w.loop.create_task(client.connect())
    return client


def start_pair(w, flavour='tcp', c_beh=None, s_beh=None, client_kw=None, server_kw=None, conn_kw=None):
    conn = w.new_conn(flavour, **(conn_kw or {}))
    server = start_server(w, conn, s_beh, **(server_kw or {}))
    client = start_client(w, conn, c_beh, **(client_kw or {}))
    return conn, client, server


def inject(w, d, raw):
    """A scripted peer writes one frame into direction d (through the link, so the endpoint under test still runs its
    real transport and parser)."""
    if d.conn.stream:
        d.written(refwire.prefixed(raw))
    else:
        d.message_written(raw)


def inject_bytes(w, d, data):
    """Raw bytes (tcp) / raw message (msg) from a hostile scripted peer; not logged as a frame."""
    if d.conn.stream:
        d.pending.extend(data)
    else:
        d.msgs.append(bytes(data))
