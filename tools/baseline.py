#!/venv/bin/python
"""Run the repository's pinned test suite (guard OFF) on a source tree and compare with /root/.vp/BASELINE.json.
usage: baseline.py [repo_dir]   exit 0 iff every stable_pass test passed."""
import json, os, subprocess, sys, tempfile
import xml.etree.ElementTree as ET

repo = sys.argv[1] if len(sys.argv) > 1 else '/repo'
base = json.load(open('/root/.vp/BASELINE.json'))
want = set(base['stable_pass'])
fd, xml = tempfile.mkstemp(suffix='.xml', dir='/var/tmp'); os.close(fd)
env = dict(os.environ); env.pop('RSOCKET_PY_VERIF', None); env.pop('RSOCKET_SRC', None)
cmd = ['/venv/bin/python', '-m', 'pytest', '-q', '-p', 'no:cacheprovider', '--timeout=120',
       '--continue-on-collection-errors', '--junitxml=' + xml] + sys.argv[2:]
p = subprocess.run(cmd, cwd=repo, env=env, stdout=subprocess.PIPE, stderr=subprocess.STDOUT, text=True)
passed = set()
for tc in ET.parse(xml).getroot().iter('testcase'):
    if not any(ch.tag in ('failure', 'error', 'skipped') for ch in tc):
        passed.add('%s::%s' % (tc.get('classname'), tc.get('name')))
os.unlink(xml)
missing = sorted(want - passed)
# flake filter: the suite is timing-sensitive (BASELINE.json lists 88 flaky tests); re-run only the missing ones, up to 3 times
for attempt in range(3):
    if not missing:
        break
    ids = ['%s.py::%s' % (m.split('::')[0].replace('.', '/'), m.split('::', 1)[1]) for m in missing]
    fd, xml2 = tempfile.mkstemp(suffix='.xml', dir='/var/tmp'); os.close(fd)
    subprocess.run(['/venv/bin/python', '-m', 'pytest', '-q', '-p', 'no:cacheprovider', '--timeout=120', '--junitxml=' + xml2] + ids,
                   cwd=repo, env=env, stdout=subprocess.PIPE, stderr=subprocess.STDOUT, text=True)
    for tc in ET.parse(xml2).getroot().iter('testcase'):
        if not any(ch.tag in ('failure', 'error', 'skipped') for ch in tc):
            passed.add('%s::%s' % (tc.get('classname'), tc.get('name')))
    os.unlink(xml2)
    print('rerun %d of %d missing tests -> still missing %d' % (attempt + 1, len(missing), len(want - passed)))
    missing = sorted(want - passed)
print('stable_pass=%d passed_now=%d missing=%d' % (len(want), len(passed & want), len(missing)))
for m in missing[:40]:
    print('  NOT PASSING:', m)
if missing:
    print(p.stdout[-3000:])
sys.exit(1 if missing else 0)
