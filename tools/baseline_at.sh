#!/bin/bash
# usage: baseline_at.sh <commit-ish> [logfile]  -- runs the pinned suite on a scratch worktree of /repo at that commit
set -e
rev=${1:-HEAD}
log=${2:-/var/tmp/baseline_$rev.log}
dir=/var/tmp/bl_wt_$$
git -C /repo worktree add --detach -f "$dir" "$rev" >/dev/null 2>&1
/venv/bin/python /verif/tools/baseline.py "$dir" > "$log" 2>&1 || true
git -C /repo worktree remove --force "$dir"
head -12 "$log"
