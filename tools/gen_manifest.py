#!/venv/bin/python
"""Generate /verif/MANIFEST.json from the table below and validate it against the schema."""
import json, os, subprocess, sys
V = os.path.dirname(os.path.dirname(os.path.abspath(__file__)))

TRUST = ('Trusted: CPython/asyncio as executed, the harness (virtual loop, simulated link, explorers, reference '
         'models/monitors in /verif/mc). Bounds are stated in the evidence file; values and schedules outside them are not covered.')

CHECKS = {
    'C03': dict(tech='exhaustive enumeration (complete product of length window x classes x framings x fragment sizes) on the real fragmenter/codec/cache',
                text='Every frame value in the stated finite window is fragmented by the real code, each fragment serialised, measured and decoded by an independent reference decoder, and reassembled by the real cache; the enumeration is complete for the window, so within it the property is decided, not sampled.',
                ref='4 C03'),
    'C13': dict(tech='explicit-state graph search to fixpoint over the real StreamControl (reduced id space) + bounded history enumeration at the 31-bit wrap + deviation-bounded schedule exploration of two real endpoints',
                text='The complete reachable state graph of the real allocator on a reduced id space is explored, every operation in every state compared with a reference allocator; wire part drives real endpoints over a simulated link and enumerates all schedules up to 2 deviations.',
                ref='4 C13'),
}
CHECKS.update({
    'C01': dict(tech='deviation-bounded exhaustive schedule exploration (stateless) of a real client and server on a simulated link',
                text='Every schedule with at most the stated number of deviations from the default is executed on the real endpoints (deliveries whole/batched/partial, application actions, same-iteration run mode) for every pair of interactions in the alphabet; a reference delivery model is checked on each execution.',
                ref='4 C01'),
    'C02': dict(tech='exhaustive enumeration (complete product of per-field boundary alphabets) + differential check of both codec backends',
                text='Complete cartesian product of small per-field alphabets for each of the 14 frame classes, plus the whole 16-bit type/flags header space; round-trip, canonical bytes, incremental TransportTCP form and backend equality are checked on every value.',
                ref='4 C02'),
    'C08': dict(tech='deviation-bounded exhaustive schedule exploration with a reference protocol automaton (monitor) on every execution',
                text='All executions (up to the deviation bound) of the C01/C09/C10 scenario sets on two real endpoints are judged frame by frame by a reference automaton of per-role RSocket legality.',
                ref='4 C08'),
    'C09': dict(tech='deviation-bounded exhaustive schedule exploration; the cancel action is an explicit event placed at every choice point',
                text='cancel() is an application event, so the explorer places it at every point of every default execution (two default policies) and combines it with one further deviation in the bound-2 units.',
                ref='4 C09'),
    'C10': dict(tech='deviation-bounded exhaustive schedule exploration with an end-state oracle after fair flush',
                text='The family one interaction x every ending is explored on two real endpoints; after a fair flush both endpoints must hold no stream and no partial frame.',
                ref='4 C10'),
})
CHECKS.update({
    'C05': dict(tech='exhaustive enumeration of all interleavings of enqueue operations with sender progress (stateless DFS with replay) on the real sender',
                text='The real send queue and sender task run against a transport whose write completes only when the explorer says so; every interleaving of up to 3 (thorough 4) enqueues with the write completions is executed and judged per stream.',
                ref='4 C05'),
    'C06': dict(tech='exhaustive enumeration of configurations x credit sequences x arrival placements on the real publishers, credit monitor on every execution',
                text='Every REQUEST_N sequence (bounded length, boundary values) is delivered at every loop-iteration offset relative to production for every library stream source and role; an unbounded-integer credit ledger is checked at the transport boundary.',
                ref='4 C06'),
    'C07': dict(tech='exhaustive enumeration of all operation sequences up to a depth (legal peer frames, local actions, connection events) against one real endpoint',
                text='All sequences over the event alphabet up to the stated depth, filtered by a reference automaton of legal peer behaviour, each also with every adjacent pair in one loop iteration; subscriber signal grammar and future exactly-once are checked on every sequence.',
                ref='4 C07'),
})
CHECKS.update({
    'C04': dict(tech='explicit-state graph search over ALL chunkings of each byte stream (state = position, parser state, frames emitted) + exhaustive split/read-buffer enumeration on the real TransportTCP',
                text='For every frame sequence in the alphabet the complete set of 2^(L-1) chunkings is covered by a graph search on the real FrameParser (a chunking-independent decoder has exactly L+1 states; any dependence appears as extra states and is judged against a reference deframer).',
                ref='4 C04'),
    'C12': dict(tech='exhaustive enumeration of hostile input alphabets (header space, hostile item sequences, failing application entry points) against a real endpoint with probe requests',
                text='All 64 type ids x flag patterns x stream-id classes x body truncations, all sequences of hostile items up to the stated length and every application entry point raising are executed against a real endpoint; containment is judged by termination, task liveness, stream confinement and in-flight/fresh probes.',
                ref='4 C12'),
})
CHECKS.update({
    'C14': dict(tech='exhaustive enumeration of operation sequences (LEASE frames, requests, clock advances) under a virtual clock against a reference lease ledger',
                text='All sequences up to the stated depth over LEASE x request x advance are executed on the real lease-honouring requester with the wall clock replaced by the virtual clock; a reference ledger judges every request frame; responder leases are enumerated as a product.',
                ref='4 C14'),
    'C15': dict(tech='deviation-bounded exhaustive exploration of acknowledgement patterns under a virtual clock + exhaustive echo product',
                text='The scripted server decides at every KEEPALIVE whether and when to acknowledge; all patterns within the deviation bound are run against the real client on the virtual clock and judged for periodic emission, no false timeout and timely detection.',
                ref='4 C15'),
    'C16': dict(tech='exhaustive products of configurations and server inputs + deviation-bounded schedule exploration of the connect race',
                text='Configuration alphabets are enumerated completely against the decoded SETUP; the connect race (suspending transport, late provider, requests issued while connecting) is explored over all schedules within the bound; every combination of SETUP flags/handler outcomes and RESUME is fed to a real server.',
                ref='4 C16'),
})
CHECKS.update({
    'C11': dict(tech='fault enumeration at byte offsets combined with deviation-bounded schedule exploration on two real endpoints',
                text='At every choice point of the default execution of each pending mix the link is cut after every byte offset (or around every boundary) in each direction and failure mode, or closed explicitly by either side; the end state of every endpoint that observed the loss is judged.',
                ref='4 C11'),
    'C17': dict(tech='deviation-bounded exhaustive schedule exploration with fault and timer events (virtual clock) over a provider of several simulated transports',
                text='Every cause of connection end x every reconnect trigger, the fault and the reconnect request placed at every choice point, up to two consecutive reconnects, on the real client with one real server per transport.',
                ref='4 C17'),
})
CHECKS.update({
    'C18': dict(tech='exhaustive enumeration (complete products of per-entry alphabets, all composites up to a length) + differential check of both codec backends',
                text='Every entry value in the stated alphabets, every composite of up to 3 (thorough 4) entries, the complete well-known tables and the over-long rejections are enumerated; round trips are compared in a reference normal form.',
                ref='4 C18'),
    'C19': dict(tech='exhaustive enumeration of route tables x requests through the real router/handler coroutines and through two real endpoints, against a reference router',
                text='The complete product of route tables (programs) and requests (type, route, routing-entry position, authentication) is driven through the real RoutingRequestHandler on the virtual loop and end-to-end over the wire; a dict-lookup reference router decides which handler may run.',
                ref='4 C19'),
    'C20': dict(tech='deviation-bounded exhaustive schedule exploration of two real endpoints driven through the Rx3 / ReactiveX4 adapters, against the reference element sequence',
                text='Stream/channel/request-response/fire-and-forget/metadata-push through both adapter generations over the full product of counts, limits, error positions and sources, with disposal as an explicit event placed at every choice point.',
                ref='4 C20'),
})
NOT_YET = {
}
ALL = ['C%02d' % i for i in range(1, 21)]

def main():
    checks = []
    for pid in ALL:
        if pid not in CHECKS:
            continue
        c = CHECKS[pid]
        checks.append({
            'property_id': pid,
            'quick_cmd': './check %s quick' % pid,
            'thorough_cmd': './check %s thorough' % pid,
            'evidence_file': '/verif/evidence/%s.json' % pid,
            'replay_cmd_template': './check replay {path}',
            'engine': 'mc',
            'level_claimed': {'category': 'model_checking', 'text': c['text'], 'design_ref': 'DESIGN.md section ' + c['ref']},
            'level_note': c.get('note', TRUST),
            'technique': c['tech'],
        })
    na = [{'property_id': pid, 'reason': NOT_YET.get(pid, 'check not built yet in this revision of /verif (planned: DESIGN.md section 4); not claimed until it exists')}
          for pid in ALL if pid not in CHECKS]
    m = {
        'version': 1,
        'setup_cmd': 'true',
        'hooks': {
            'guard': 'RSOCKET_PY_VERIF',
            'enable': 'no source hooks are needed: the harness closes the system from outside (Transport objects, event loop, module-level datetime names); ./check exports RSOCKET_PY_VERIF=1 for form only',
            'baseline_off_cmd': 'cd /repo && /venv/bin/python -m pytest -ra -q -p no:cacheprovider --timeout=900 --continue-on-collection-errors',
            'source_commits': [],
            'add_only': True,
        },
        'engines': [{'name': 'mc', 'path': '/verif/mc', 'serves_properties': sorted(CHECKS),
                     'kind_free_text': 'hand-written bounded exhaustive explorer for the real Python code: virtual asyncio loop + simulated link + deviation-bounded schedule exploration, operation-sequence enumeration, explicit-state graph search, complete products of small domains'}],
        'checks': checks,
        'notes': 'All checks run the real rsocket-py code from /repo (editable install) under /venv/bin/python; nothing is built. Known findings: /verif/known_findings.json.',
        'not_applicable': na,
    }
    with open(os.path.join(V, 'MANIFEST.json'), 'w') as f:
        json.dump(m, f, indent=1)
    import jsonschema
    jsonschema.validate(m, json.load(open('/root/.vp/MANIFEST.schema.json')))
    print('MANIFEST.json written: %d checks, %d not_applicable' % (len(checks), len(na)))

if __name__ == '__main__':
    main()
