#!/bin/bash
# usage: mutant.sh <patch-file|-e 'python-sed'> -- <check args...>
# Applies a patch to a scratch worktree of /repo HEAD (under /var/tmp), runs ./check with RSOCKET_SRC, removes the worktree.
set -e
patch="$1"; shift; [ "$1" == "--" ] && shift
d=/var/tmp/mut_$$
git -C /repo worktree add --detach -f "$d" HEAD >/dev/null 2>&1
( cd "$d" && git apply "$patch" ) || { git -C /repo worktree remove --force "$d"; echo "patch failed"; exit 3; }
cd /verif
rc=0
for c in "$@"; do
  RSOCKET_SRC="$d" ./check $c quick 2>&1 | grep -E "^VIOLATION|^KNOWN|quick:|HARNESS" | cut -c1-220 || true
done
git -C /repo worktree remove --force "$d"
