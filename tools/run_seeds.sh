#!/bin/bash
# usage: run_seeds.sh [ids...]   (default: every directory under /verif/seeded)
# Re-checks detection: applies each planted change to a scratch worktree of /repo HEAD and runs the checks named in its
# meta.json "caught_by"; prints one line per (seed, check): CAUGHT / MISSED / NOAPPLY. Evidence goes to /var/tmp only.
cd /verif
ids="$@"; [ -z "$ids" ] && ids=$(ls seeded)
for id in $ids; do
  patch=/verif/seeded/$id/patch.diff
  [ -f $patch ] || continue
  if grep -q '"obsolete"' /verif/seeded/$id/meta.json 2>/dev/null; then echo "$id SKIPPED (marked obsolete in its meta.json)"; continue; fi
  checks=$(python3 -c "
import json,re,sys
m=json.load(open('/verif/seeded/$id/meta.json'))
print(' '.join(sorted({re.match(r'(C\d\d)', c).group(1) for c in m.get('caught_by', []) if re.match(r'(C\d\d)', c)})))")
  d=/var/tmp/seedrun_$$
  git -C /repo worktree add --detach -f $d HEAD >/dev/null 2>&1
  if ! ( cd $d && git apply $patch 2>/dev/null ); then
    echo "$id NOAPPLY (patch was made against an older tree)"; git -C /repo worktree remove --force $d; continue
  fi
  for c in $checks; do
    out=$(RSOCKET_SRC=$d ./check $c quick 2>&1)
    n=$(echo "$out" | grep -c "^VIOLATION")
    if [ "$n" -gt 0 ]; then echo "$id $c CAUGHT ($n signatures)"; else echo "$id $c MISSED"; fi
  done
  git -C /repo worktree remove --force $d
done
