#!/bin/bash
# usage: seed_confirm.sh <ID> <agent-worktree> <checks...>
# Confirms a planted change independently (demo fails with it / passes without it, in a fresh scratch worktree),
# stores it under /verif/seeded/<ID>/ and runs the named checks against it.
set -u
id=$1; src=$2; shift 2
mkdir -p /verif/seeded/$id
cp $src/patch.diff /verif/seeded/$id/patch.diff
demo=$(ls $src/demo_*.py | head -1); cp $demo /verif/seeded/$id/
d=/var/tmp/seedchk_$$
git -C /repo worktree add --detach -f $d HEAD >/dev/null 2>&1
cd $d
cp $demo .
echo "--- demo WITHOUT the change:"; timeout 120 /venv/bin/python $(basename $demo) > /var/tmp/seed_demo_clean.log 2>&1; echo "exit=$?"
git apply /verif/seeded/$id/patch.diff || { echo "PATCH DOES NOT APPLY"; }
echo "--- demo WITH the change:"; timeout 120 /venv/bin/python $(basename $demo) > /var/tmp/seed_demo_mut.log 2>&1; echo "exit=$?"; tail -3 /var/tmp/seed_demo_mut.log | cut -c1-200
cd /verif
for c in "$@"; do
  RSOCKET_SRC=$d ./check $c quick 2>&1 | grep -E "^VIOLATION|signature=|quick:|HARNESS" | cut -c1-230 | head -8
done
git -C /repo worktree remove --force $d
