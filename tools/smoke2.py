import sys
sys.path.insert(0, '/verif')
import logging; logging.disable(logging.CRITICAL)
from mc.world import World, Chooser, Step, start_pair
from mc.app import RecSubscriber, P, watch_future
from rsocket.helpers import create_future
from rsocket.payload import Payload
from rsocket.streams.stream_from_generator import StreamFromGenerator

def run(flavour, fs):
    w = World(alts=('all','chunk'), modes=('Q',))
    def rr(h, p): return create_future(Payload(b'R:' + bytes(p.data or b''), p.metadata))
    def rs(h, p):
        def gen():
            for i in range(3):
                yield Payload(b'e%d' % i + b'x'*100, b'm'), i == 2
        return StreamFromGenerator(gen)
    conn, client, server = start_pair(w, flavour, s_beh={'request_response': rr, 'request_stream': rs},
                                      client_kw={'fragment_size_bytes': fs}, server_kw={'fragment_size_bytes': fs})
    def do_rr(w):
        w.objs['f'] = watch_future(w, 'c0', 'rr1', client.request_response(P(b'hello'*30, b'meta')))
    def do_rs(w):
        sub = RecSubscriber(w, 'c0', 'sub1')
        w.objs['sub'] = sub
        client.request_stream(P(b'go')).initial_request_n(2).subscribe(sub)
    def more(w): w.objs['sub'].subscription.request(5)
    w.add_actor('A', [Step('rr', do_rr), Step('rs', do_rs), Step('req', more, guard=lambda w: len(w.objs['sub'].elements())>=2)])
    ch = Chooser([])
    w.run(ch)
    for e in w.log:
        if e[0] == 'api': print(e[:4], str(e[4])[:60])
    print(len([e for e in w.log if e[0]=='tx']), 'frames', w.errors, w.loop.read_exc_log())
    w.teardown()

run(sys.argv[1], int(sys.argv[2]) if len(sys.argv)>2 and sys.argv[2]!='0' else None)
